#!/usr/bin/env python3
"""Regenerates /verif/MANIFEST.json from the table below (single place to edit)."""
import json
import os
import subprocess

HERE = os.path.dirname(os.path.dirname(os.path.abspath(__file__)))
ALL = [f"C{i:02d}" for i in range(1, 18)]

CHECKS = {
 "C10": dict(
    text="TLC enumerates the bounded mesh configuration space of FVDesignMesh exhaustively (9 classes x both constructor forms x all increasing face sequences over a small value set x angle units), checks the reference geometry against independent formulas, and every configuration is replayed into the real constructors; all reported arrays are lifted to exact rationals and the C10 predicates of FVProperties are evaluated on them by TLC (FVTraceMesh).",
    ref="DESIGN.md 5/C10",
    note="bounded (N<=3 per axis quick, <=4 thorough; 3D N<=2); float->rational lifting with certificate; pi handled as an overall factor stated by the spec",
    technique="TLA+ reference geometry + TLC exhaustive enumeration + trace validation of lifted code outputs"),
 "C16": dict(
    text="FVContract is the request->response machine of the accept/reject contract (label tables written twice and ASSUMEd equal); TLC enumerates its complete request space (about 3000 requests), each request is executed against the real API and the recorded (request, outcome) events are validated against the spec by FVTraceContract. Complete enumeration, not sampling.",
    ref="DESIGN.md 5/C16",
    note="outcome class only (exception type), N in {1,2,3} per axis; the six-argument internal constructor form of 1D/2D classes is not judged",
    technique="TLA+ contract tables + TLC exhaustive request enumeration + trace validation of recorded outcomes"),
}

CHECKS["C13"] = dict(
    text="FVLimiters holds the published closed forms of the 16 limiters in exact rationals; TLC checks psi(1)=1, the TVD region, the clipping family, symmetry and the SUPERBEE fallback on a rational grid (FVDesignLimiter) and emits the grid; the real fluxLimiter(name) is evaluated on every grid point as 0-D..3-D arrays and at +-10^k, and FVTraceLimiter evaluates every clause on the lifted observations (the reference is the property here). The TVD-term totality clause is validated on all small integer fields by the operator layer.",
    ref="DESIGN.md 5/C13",
    note="rational grid |p|<=60, q in {1,2,3,4,5,8} plus singular points; +-10^k by enclosures; formulas as transcribed from the cited table",
    technique="TLA+ closed forms + TLC invariants on a rational grid + trace validation of lifted evaluations")

CHECKS["C05"] = dict(
    text="For seeded configurations of the bounded space (9 classes, non-uniform spacing, every coefficient/velocity sign pattern, explicit upwind direction fields) the real builders' matrices and the matrix of the explicit chain divergenceTerm(coef*mean/gradient(e_c)) over the full unit basis (ghost cells included) are lifted to exact rationals, and TLC (FVTraceOps) evaluates the C05 predicates of FVProperties on them with zero tolerance; the reference semantics FVOperators is compared as a conformance tripwire and is itself checked by TLC for the same identities (FVDesignOps).",
    ref="DESIGN.md 5/C05",
    note="bounded sizes (N<=3 per axis, 3D N<=2), seeded sampling of coefficient fields; SphericalGrid3D via the rational surrogate metric; TVD identities are checked by the TVD part",
    technique="TLA+ reference operators + TLC trace validation of lifted builder outputs (code-vs-code identities evaluated in TLC)")
CHECKS["C06"] = dict(
    text="Row sums of the real diffusion / central / upwind matrices and the code's own divergence of u, plus source-term matrices and vectors, are lifted to exact rationals for seeded configurations of the bounded space; TLC (FVTraceOps) evaluates the C06 predicates (M*1 = 0, M*1 = div u, sources diagonal and interior-only) with zero tolerance.",
    ref="DESIGN.md 5/C06",
    note="bounded sizes, seeded sampling; the steady-state clause is decided through the inverse-formulation solves of the solver layer",
    technique="TLA+ predicates evaluated by TLC on lifted builder outputs; reference semantics as tripwire")

CHECKS["C03"] = dict(
    text="For seeded configurations (9 classes, per-side Dirichlet/Neumann/Robin with face-wise varying arrays, periodic on non-radial axes) the full value arrays after construction, apply_BCs, solvePDE and solveExplicitPDE, the solver's boundary rows, the arrays obtained with (a,b,c) scaled, and plotprofile() are lifted to exact rationals; TLC (FVTraceOps) evaluates the Robin relation with the metric factors of FVBoundary face by face, the periodic wrap, row/ghost consistency, row proportionality to the Robin relation and scale invariance with zero tolerance.",
    ref="DESIGN.md 5/C03",
    note="normal difference quotient taken along the coordinate axis (documented convention); periodic rows required on uniform-ended axes; singular BC rows excluded",
    technique="TLA+ boundary semantics (FVBoundary) + TLC trace validation of lifted ghost values and boundary rows")
CHECKS["C01"] = dict(
    text="For seeded closed configurations (coefficients vanishing on the domain boundary, or periodic along uniform-ended axes) the real diffusion/central/upwind matrices and the explicit divergence are lifted to exact rationals and TLC (FVTraceOps) checks that every cellvolume-weighted column sum (ghost columns included) vanishes exactly, i.e. that interior face fluxes cancel in the number domainIntegral() reports; multi-step solver clauses are added by the solver layer.",
    ref="DESIGN.md 5/C01",
    note="bounded sizes, seeded sampling; weights are the code's own cellvolume (what domainIntegral uses); SphericalGrid3D additionally checked against midpoint volumes",
    technique="TLA+ predicates evaluated by TLC on lifted builder outputs (weighted column sums), reference semantics as tripwire")

CHECKS["C04"] = dict(
    text="Inverse formulation (DESIGN 3.3 D2): the specification fixes the post-state x* (small integers on every cell, ghosts included) and the boundary data derived from it; the source is derived from the code's own matrices; the real solvePDE, solveMatrixPDE on the hand-assembled system, an external recording solver, five algebraically identical presentations of the term list (re-ordered, split and scaled, doubly negated, unpaired, paired) and superposed data are run, all results are lifted to exact rationals and TLC (FVTraceOps) checks result = x*, identity of the returned object, equality of the systems, row-wise assembly (boundary rows = BC rows, interior rows = terms) and linearity with zero tolerance.",
    ref="DESIGN.md 5/C04",
    note="bounded sizes, seeded sampling; instances with condition number > 1e5 are skipped and counted; lifting tolerance scaled with the condition number",
    technique="TLA+ inverse-formulation predicates evaluated by TLC on lifted solver results and assembled systems")
CHECKS["C12"] = dict(
    text="On the same inverse-formulation instances TLC evaluates the backward-Euler residual alpha(new-old)/dt + A new = gamma cell by cell on the lifted solvePDE result and the lifted code matrices, the fixed-point clause (a steady solution started from itself is returned unchanged for every dt, alpha), the explicit step (old + dt*RHS on interior cells, BCs re-imposed, input byte-identical, result a new object) and the usability of the explicit result by solvePDE. The limit clauses dt->0, dt->inf and O(dt^2) agreement are asymptotic and only observed in floating point as supporting evidence (DESIGN 8). A further history keeps a per-cell alpha in ONE CellVariable object over two steps with the same dt and refreshes it in place in between (C12_HistoryAlpha).",
    ref="DESIGN.md 5/C12, 8",
    note="limits themselves are not decided by TLC (no reals); exact algebraic forms are",
    technique="TLA+ residual / fixed-point / explicit-step predicates evaluated by TLC on lifted solver results")

CHECKS["C09"] = dict(
    text="FVLifecycle.tla models objects, sharing, dirty bits, caches and ghost freshness with one action per public call, written like the code. TLC checks all histories to a depth (3 variables, 3 BC objects, symmetry-reduced, about 1e6 states in the thorough tier) for: a solve never reads a missing or (for unshared BC objects) stale cache, ghost layer and cache fresh after solve/apply, explicit result usable, copies/operator results independent, clean flags imply fresh caches. The unrestricted freshness invariant fails only through a shared BC object - TLC's counterexample is replayed into real objects on 7 grid classes (known finding). Every transition of two bounded state graphs (2 variables to depth 4; 1 variable, both sides, seven kinds of boundary edits incl. periodic on/off and single-coefficient assignment, to depth 5 quick / 7 thorough) and TLC -simulate behaviours over the full alphabet are replayed step by step into real objects on 7 grid classes in three construction styles (interior values / ghost-inclusive float / ghost-inclusive integer array); every solvePDE and a probe solve after every edge are compared bit-for-bit with the solve of a freshly constructed variable. Code -> spec: the public calls of 7 (quick) / 17 (thorough) repository tests, of random programs and of the shared-BC scenario are recorded through the env-guarded hooks and validated in full by FVLifecycleTrace (object slots recycled through Drop events). Extras in the thorough tier: Apalache discharges an inductive invariant of the lifecycle core (pools of 3) and TLAPS proves it for arbitrary pools (spec/proofs/FVLifecycleIndProof.tla, 38 obligations). Edit kinds include writes through a slice view of a coefficient array that the program holds across solves (state viewHot), in the replayed edge graphs, the simulated behaviours and the recorded random programs.",
    ref="DESIGN.md 5/C09",
    note="exhaustive exploration bounded in pools and depth; manual flag resets outside the alphabet; simulated behaviours are seeded samples beyond the exhaustive depth; the Apalache / TLAPS results are about the model, the binding to the code is by replay and trace validation",
    technique="TLA+ lifecycle model checked by TLC (exhaustive + simulate) and replayed into the real objects with a fresh-start oracle")
CHECKS["C14"] = dict(
    text="Object level: FVLifecycle's Copy/Arith/funceval actions (deep copy of the left-most operand's BC object, fresh ghost layer, disjoint storage) are an invariant of the TLC-checked model and are replayed into real objects on 7 grid classes: results share no storage / BC object / BC arrays with operands, operands stay byte-identical, result BCs equal the left operand's and its boundary values are consistent with them, copy() is equal and independent. Value level: the operator table is enumerated and each request executed on CellVariables and FaceVariables.",
    ref="DESIGN.md 5/C14",
    note="arrays on the right are required for CellVariable only; expression depth bounded",
    technique="TLA+ lifecycle model (TLC) + behaviour replay with byte snapshots; TLC-enumerated operator table")
CHECKS["C15"] = dict(
    text="FVLifecycle gives every Build / SolveMatrix / SolveExplicit action the frame condition UNCHANGED on all inputs and SolvePDE changes only its variable; TLC -simulate behaviours of a builder-heavy configuration (15 builder kinds) are replayed on 7 grid classes and the frame condition is observed by byte snapshots of everything reachable (mesh arrays, value arrays, BC arrays and flags, cached CSR data), every builder is called twice (bit-identical results) and returned buffers are tested for aliasing with mesh storage and inputs. A result must also keep its bytes when the same builder is called with other inputs in between (C15_ResultStable).",
    ref="DESIGN.md 5/C15",
    note="seeded behaviours; aliasing tested with numpy.shares_memory",
    technique="TLA+ frame conditions (TLC) + behaviour replay with byte snapshots and aliasing probes")

CHECKS["C11"] = dict(
    text="The five means of FVOperators (linear by distance weights, arithmetic and harmonic by width weights, geometric, upwind with boundary-face average on inflow and plain average at u=0) are the reference; for seeded configurations with integer cell widths the real averaging functions are evaluated on positive sixth-power data (so that weighted geometric means are rational), on arbitrary integer data and on data with exact zeros, lifted, and TLC (FVTraceOps) checks the face formulas, betweenness, constants, H<=G<=A, the geometric relation G^(w1+w2)=a^w1 b^w2 and exactness of linearMean on linear fields at face positions. Identical formulas per face in 1D/2D/3D give locality and dimension agreement.",
    ref="DESIGN.md 5/C11",
    note="cell widths in {1,2}; bounds and ordering on positive data only (as stated)",
    technique="TLA+ reference means + TLC trace validation of lifted face values")

CHECKS["C07"] = dict(
    text="For seeded configurations with exactly (rationally) divergence-free velocity fields - uniform Cartesian, q/r and q/r^2 radial, discrete stream functions with integer node values on 2D grids and on planes of 3D grids, zero wall-normal velocity - D in {0,1,3,1000} per face, beta >= 0 and BC kinds {Dirichlet, no-flux, periodic}, TLC (FVTraceOps) checks on the lifted real matrices the M-matrix sign structure that implies the discrete maximum principle (non-positive off-diagonals incl. ghost columns, non-negative diagonal, zero row sums of -diffusion+upwind, premise div u = 0 exactly), and checks the observed min/max of three real solvePDE steps per dt over 8 decades against the hull of previous values and Dirichlet data (fixed-point integers).",
    ref="DESIGN.md 5/C07",
    note="the hull clause is a floating-point observation with 2e-6 slack; the sign-structure clause is exact; central convection and TVD corrections are outside the property",
    technique="TLA+ sign-structure predicate evaluated by TLC on lifted matrices + TLC check of observed step bounds")

CHECKS["C08"] = dict(
    text="The symmetry maps E (insertion of a redundant axis at any position with 1-2 cells and no-flux or periodic sides: Grid1D-2D-3D, CylindricalGrid1D to CylindricalGrid2D / PolarGrid2D, CylindricalGrid2D / PolarGrid2D to CylindricalGrid3D; every axis permutation and mirror of Cartesian grids with the velocity component reversed and sides swapped, cyclic shifts along a periodic uniform axis) are defined in FVProperties (Pre, EmbedField, C08_*). For seeded pairs (configuration, image) the real diffusion/central/upwind matrices applied to a mapped field, the ghost values, the TVD corrections and the solvePDE result for forward-mapped data are lifted and TLC checks that they commute with E exactly.",
    ref="DESIGN.md 5/C08",
    note="bounded sizes (N<=2 per axis on the small grid); cyclic shifts along periodic uniform axes included (upwind/TVD on periodic axes is a recorded finding)",
    technique="TLA+ symmetry maps + TLC trace validation of lifted outputs of both configurations")

CHECKS["C17"] = dict(
    text="A dimension table (exponents of length, time, field for every input and output) is part of FVProperties. For seeded configurations and (L,T,K) drawn from {1/10,1/2,2,3,10}^3 every input is rescaled exactly according to its dimension; every builder output, the ghost values, cell volumes, TVD corrections and the solvePDE result (inverse formulation) of both unit systems are lifted and TLC checks entry by entry that the rescaled output equals the original times L^l T^t K^k; additivity and homogeneity of each matrix builder in its coefficient field is checked on triples (C1, C2, lam C1 + mu C2).",
    ref="DESIGN.md 5/C17",
    note="exact scales from a small rational set, plus +-6 decades through the power-of-ten ratio of corresponding entries",
    technique="TLA+ dimension table + TLC trace validation of lifted outputs in two unit systems")

NOT_APPLICABLE = {
 "C02": "asymptotic convergence order under refinement: no reals/limits in TLA+, exact lifting does not survive solves on refined grids (DESIGN 8)",
}
PENDING = "check under construction in this session (will be claimed once built)"


def main():
    hooks_commits = []
    try:
        log = subprocess.run(["git", "-C", "/repo", "log", "--format=%H %s"], capture_output=True, text=True).stdout
        hooks_commits = [l.split()[0] for l in log.splitlines() if " hook:" in l or " hooks:" in l]
    except Exception:
        pass
    man = {
        "version": 1,
        "setup_cmd": "./setup.sh",
        "hooks": {
            "guard": "PYFVTOOL_VERIF_TRACE",
            "enable": "checks import pyfvtool from /repo/src of the current working tree; lifecycle hooks are switched on by setting PYFVTOOL_VERIF_TRACE=<ndjson sink> before the import",
            "baseline_off_cmd": "cd /repo && /venv/bin/python -m pytest -ra -q -p no:cacheprovider --timeout=900 --continue-on-collection-errors",
            "source_commits": hooks_commits,
            "add_only": True,
        },
        "engines": [{"name": "tlc", "path": "/opt/veriftools/tla/tla2tools.jar",
                     "serves_properties": sorted(CHECKS),
                     "kind_free_text": "TLA+ specifications under /verif/spec checked with TLC 1.8; conformance harness (Python, /venv) under /verif/harness"}],
        "checks": [],
        "not_applicable": [],
        "notes": "exit 0 = property held on everything explored (KNOWN-FINDING lines for recorded defects), exit 1 + VIOLATION line = new violation, exit 2 = machinery failure",
    }
    for p in ALL:
        if p in CHECKS:
            c = CHECKS[p]
            man["checks"].append({
                "property_id": p,
                "quick_cmd": f"./check {p} --tier quick",
                "thorough_cmd": f"./check {p} --tier thorough",
                "evidence_file": f"/verif/evidence/{p}.json",
                "replay_cmd_template": f"./check {p} --replay {{path}}",
                "engine": "tlc",
                "level_claimed": {"category": c.get("category", "model_checking"), "text": c["text"], "design_ref": c["ref"]},
                "level_note": c["note"],
                "technique": c["technique"],
            })
        else:
            man["not_applicable"].append({"property_id": p, "reason": NOT_APPLICABLE.get(p, PENDING)})
    with open(os.path.join(HERE, "MANIFEST.json"), "w") as fh:
        json.dump(man, fh, indent=1)
    print("MANIFEST.json written:", len(man["checks"]), "checks")


if __name__ == "__main__":
    main()
