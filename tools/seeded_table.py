#!/usr/bin/env python3
"""Regenerates the detection matrix of DESIGN.md section 11 from /verif/seeded/*/meta.json."""
import glob
import json
import os
import re

HERE = os.path.dirname(os.path.dirname(os.path.abspath(__file__)))
rows = []
for f in sorted(glob.glob(os.path.join(HERE, "seeded", "*", "meta.json"))):
    m = json.load(open(f))
    notes = os.path.join(os.path.dirname(f), "notes.md")
    what = ""
    if os.path.exists(notes):
        txt = open(notes).read().strip().splitlines()
        what = " ".join(l.strip("# ").strip() for l in txt[:3])[:150].replace("|", "/")
    ran = ", ".join(f"{c}:{r['exit']}" for c, r in m.get("checks", {}).items())
    first = m.get("earlier_evaluations")
    first = ("; ".join(", ".join(e["detected_by"]) or "none" for e in first)) if first else "="
    conf = "yes" if m.get("confirmed") else ("superseded by a fix (see meta.json)" if m.get("status_note") else "NO")
    rows.append(f"| {m['id']} | {m['property']} | {what} | {conf} | "
                f"{', '.join(m.get('detected_by', [])) or '**none**'} | {first} | {ran} |")
table = "\n".join(["| id | property | change (first lines of the author's notes) | confirmed | detected by (now) | earlier evaluations (= : unchanged) | checks run (exit) |",
                   "|---|---|---|---|---|---|---|"] + rows)
p = os.path.join(HERE, "DESIGN.md")
s = open(p).read()
s = re.sub(r"<!-- SEEDED-TABLE-BEGIN -->.*<!-- SEEDED-TABLE-END -->",
           "<!-- SEEDED-TABLE-BEGIN -->\n" + table + "\n<!-- SEEDED-TABLE-END -->", s, flags=re.S)
open(p, "w").write(s)
print(len(rows), "seeded changes in the table")
