#!/bin/sh
# usage: rebase_patch.sh <dir with patch.diff>   - make the patch apply to the current /repo HEAD (context drift)
set -e
d="$1"
if git -C /repo apply --check "$d/patch.diff" 2>/dev/null; then echo "applies: $d"; exit 0; fi
wt=/tmp/wt-rebase-$$
git -C /repo worktree add -q "$wt" HEAD
( cd "$wt" && patch -p1 --fuzz=3 -s < "$d/patch.diff" && git diff > "$d/patch.rebased.diff" )
git -C /repo worktree remove --force "$wt"
[ -s "$d/patch.rebased.diff" ] || { echo "rebase failed: $d"; exit 1; }
cp "$d/patch.diff" "$d/patch.orig.diff"; cp "$d/patch.rebased.diff" "$d/patch.diff"; echo "rebased: $d"
