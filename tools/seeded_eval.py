#!/usr/bin/env python3
"""Confirm and evaluate one seeded change.

usage: seeded_eval.py <source dir with patch.diff, demo.py, notes.md> <seeded id> <property> [check ...]

1. in a scratch worktree (outside /repo and /verif): the demonstration passes without the
   change and fails with it; the pinned test-suite still passes with it;
2. the change is applied to /repo, the listed checks (default: the property's own) are run with
   the quick tier, and the change is undone straight afterwards;
3. everything is recorded under /verif/seeded/<id>/ (patch.diff, demo.py, notes.md, meta.json).
"""
import json
import os
import shutil
import subprocess
import sys
import time

VERIF = os.path.dirname(os.path.dirname(os.path.abspath(__file__)))
PY = "/venv/bin/python"


def sh(cmd, cwd=None, env=None, timeout=3600):
    e = dict(os.environ)
    if env:
        e.update(env)
    p = subprocess.run(cmd, shell=True, cwd=cwd, env=e, capture_output=True, text=True, timeout=timeout)
    return p.returncode, p.stdout + p.stderr


def main():
    src, sid, prop = sys.argv[1], sys.argv[2], sys.argv[3]
    checks = sys.argv[4:] or [prop]
    skip_suite = os.environ.get("SEEDED_SKIP_SUITE") == "1"
    wt = f"/tmp/wt-eval-{sid}"
    sh(f"git -C /repo worktree remove --force {wt}")
    rc, out = sh(f"git -C /repo worktree add -q {wt} HEAD")
    assert rc == 0, out
    meta = {"id": sid, "property": prop, "source": "independent sub-agent given only the property text",
            "base_commit": sh("git -C /repo rev-parse --short HEAD")[1].strip(),
            "ran": ["scratch worktree of /repo HEAD under /tmp (removed afterwards)",
                    "demo.py without the change (expect exit 0), with the change (expect exit 1)",
                    "pinned test-suite with the change (pytest -n 8, PARDISO test ignored)",
                    "./check <prop> --tier quick with VERIF_REPO=<scratch worktree with the change>, VERIF_SEED=1"]}
    try:
        env = {"PYTHONPATH": f"{wt}/src"}
        rc0, o0 = sh(f"{PY} {src}/demo.py", cwd=wt, env=env)
        meta["demo_without_change"] = rc0
        rc, out = sh(f"git -C {wt} apply {os.path.abspath(src)}/patch.diff")
        assert rc == 0, "patch does not apply: " + out
        rc1, o1 = sh(f"{PY} {src}/demo.py", cwd=wt, env=env)
        meta["demo_with_change"] = rc1
        meta["demo_output_with_change"] = o1[-600:]
        if not skip_suite:
            rc2, o2 = sh(f"{PY} -m pytest -q -p no:cacheprovider -n 4 --timeout=900 "
                         f"--ignore=tests/test_oneMKL_PARDISO_interface.py", cwd=wt, env=env)
            meta["suite_with_change"] = o2.strip().splitlines()[-1] if o2.strip() else str(rc2)
            meta["suite_rc"] = rc2
        # run the checks against the scratch worktree with the change applied (VERIF_REPO)
        results = {}
        scratch = f"/tmp/seeded-eval-{sid}"
        os.makedirs(scratch, exist_ok=True)
        for c in checks:
            t0 = time.time()
            rc, out = sh(f"./check {c} --tier quick", cwd=VERIF, timeout=3000,
                         env={"VERIF_SEED": "1", "VERIF_REPO": wt, "VERIF_EVIDENCE_DIR": scratch,
                              "VERIF_REPLAY_DIR": scratch})
            viol = [l for l in out.splitlines() if l.startswith("VIOLATION") or "signature:" in l
                    or l.startswith("MACHINERY")]
            results[c] = {"exit": rc, "wall_s": round(time.time() - t0, 1), "lines": viol[:8]}
        shutil.rmtree(scratch, ignore_errors=True)
    finally:
        sh(f"git -C /repo worktree remove --force {wt}")
    confirmed = meta["demo_without_change"] == 0 and meta["demo_with_change"] != 0 and meta.get("suite_rc", 0) == 0
    meta["confirmed"] = confirmed
    meta["checks"] = results
    meta["detected_by"] = [c for c, r in results.items() if r["exit"] == 1]
    dst = os.path.join(VERIF, "seeded", sid)
    os.makedirs(dst, exist_ok=True)
    for f in ("patch.diff", "demo.py", "notes.md"):
        if os.path.exists(os.path.join(src, f)) and os.path.abspath(src) != os.path.abspath(dst):
            shutil.copy(os.path.join(src, f), os.path.join(dst, f))
    old_path = os.path.join(dst, "meta.json")
    if os.path.exists(old_path):
        # re-evaluation after the checks were strengthened: keep the suite result of the first evaluation and
        # the history of what detected the change at each evaluation
        old = json.load(open(old_path))
        for k in ("suite_with_change", "suite_rc"):
            if k not in meta and k in old:
                meta[k] = old[k]
        meta["earlier_evaluations"] = old.get("earlier_evaluations", []) + [
            {"detected_by": old.get("detected_by", []), "checks_run": sorted(old.get("checks", {}))}]
        meta["confirmed"] = meta["confirmed"] and old.get("confirmed", True)
    with open(old_path, "w") as fh:
        json.dump(meta, fh, indent=1)
    print(json.dumps({k: meta[k] for k in ("id", "confirmed", "detected_by", "demo_without_change",
                                           "demo_with_change", "suite_with_change") if k in meta}))
    for c, r in results.items():
        print(" ", c, r["exit"], r["lines"][:4])


if __name__ == "__main__":
    main()
