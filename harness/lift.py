"""Exact lifting of floats computed by the code to small rationals (DESIGN 3.3, device D1).

Inputs of every configuration are small integers / small rationals, and the code only
uses + - * / max min abs on them, so every output is a rational with a small denominator.
`lift` recovers it by continued fractions and certifies the result:

    |x - p/q| <= TOL * max(1, |x|)   and   q <= QMAX

Two distinct rationals with denominators <= QMAX differ by at least 1/QMAX^2 = 1.1e-9 >> 2*TOL.
A value that cannot be certified is returned as NAR (<<0, 0>> on the TLA+ side), never guessed.
"""
from fractions import Fraction
import math

TOL = 3e-14            # about 128 ulp: outputs of the builders are a few floating-point operations deep
QMAX = 30_000
# A float whose true value is NOT a rational with denominator <= QMAX is lifted by coincidence with
# probability ~ 0.61 * QMAX^2 * TOL (density of reduced fractions times the tolerance window),
# here 1.6e-5; (QMAX, TOL) = (5e5, 1e-12) gave 15 % and produced false "exact" values.
NAR = (0, 0)           # "not a (small) rational"
INT_LIMIT = 2**31 - 1


def lift(x, qmax=QMAX, tol=TOL):
    """float -> Fraction or None"""
    x = float(x)
    if not math.isfinite(x):
        return None
    if x == 0.0:
        return Fraction(0)
    fr = Fraction(x).limit_denominator(qmax)
    if abs(float(fr) - x) <= tol * max(1.0, abs(x)):
        # prefer the simplest rational inside the tolerance interval
        lo = Fraction(x) - Fraction(tol * max(1.0, abs(x)))
        hi = Fraction(x) + Fraction(tol * max(1.0, abs(x)))
        s = simplest_between(lo, hi)
        if s.denominator <= qmax:
            fr = s
        if abs(fr.numerator) > INT_LIMIT or fr.denominator > INT_LIMIT:
            return None
        return fr
    return None


def simplest_between(lo, hi):
    """simplest fraction in the closed interval [lo, hi] (Stern-Brocot)"""
    if lo > hi:
        lo, hi = hi, lo
    if lo <= 0 <= hi:
        return Fraction(0)
    if hi < 0:
        return -simplest_between(-hi, -lo)
    # 0 < lo <= hi
    fl = math.floor(lo)
    if fl == lo:
        return Fraction(fl)
    if fl + 1 <= hi:
        return Fraction(fl + 1)
    # same integer part
    rest = simplest_between(1 / (hi - fl), 1 / (lo - fl))
    return fl + 1 / rest


def enc(fr):
    """Fraction (or None) -> JSON-able [n, d] understood by Rational.tla"""
    if fr is None:
        return [0, 0]
    fr = Fraction(fr)
    return [fr.numerator, fr.denominator]


UNLIFTABLE = [1, 0]     # finite, but not a small rational: predicates touching it are "undecided"
NOT_FINITE = [0, 0]     # nan / inf: NaR proper, every predicate touching it is FALSE


def lift_enc(x, **kw):
    fr = lift(x, **kw)
    if fr is None:
        return list(NOT_FINITE) if not math.isfinite(float(x)) else list(UNLIFTABLE)
    return enc(fr)


def lift_array(a, **kw):
    """numpy array -> nested lists of [n,d]; second value: number of unliftable entries"""
    import numpy as np
    a = np.asarray(a, dtype=float)
    bad = 0
    flat = []
    for x in a.ravel():
        e = lift_enc(x, **kw)
        if e[1] == 0:
            bad += 1
        flat.append(e)
    def build(shape, it):
        if len(shape) == 0:
            return next(it)
        return [build(shape[1:], it) for _ in range(shape[0])]
    return build(a.shape, iter(flat)), bad


def frac(x):
    """exact Fraction from int / 'n/d' string / [n,d] / Fraction"""
    if isinstance(x, Fraction):
        return x
    if isinstance(x, (list, tuple)):
        return Fraction(x[0], x[1])
    return Fraction(x)
