"""Numeric-layer driver: configuration record -> real builder calls -> lifted observations.

A configuration is a JSON-able dict with exact rationals ([n, d]) in the code's array layout:
  cls, faces (per axis), aunit ('rad' | 'sur'),
  D, u, uup      : per-axis nested arrays of face values
  beta, gamma, alpha : interior-shaped nested arrays
  phi            : full (dims+2) nested array (ghost cells included)
  bc             : {side: {a, b, c: transverse-shaped nested arrays, periodic: bool}}
  dt, lam        : rationals
The bounded space these are drawn from is DESIGN section 5 ("the bounded space").
"""
import contextlib
import io
import itertools
import warnings
from fractions import Fraction as Fr

import drive
import lift

SIDES = [("left", "right"), ("bottom", "top"), ("back", "front")]
LIN_VALS = [0, 1, 2, 3, 4, 6]
ANG_VALS = [Fr(1, 2), Fr(1), Fr(2), Fr(3)]


# ----------------------------------------------------------------------------- trig surrogate
class NpProxy:
    """numpy with sin/cos replaced by the rational surrogates s(t)=t(4-t)/4, c(t)=1-t^2/2+t^3/12"""

    def __init__(self, real):
        self._real = real
        self.calls = []

    def __getattr__(self, name):
        return getattr(self._real, name)

    def sin(self, x):
        x = self._real.asarray(x, dtype=float)
        self.calls.append(("sin", x.copy()))
        return x * (4.0 - x) / 4.0

    def cos(self, x):
        x = self._real.asarray(x, dtype=float)
        self.calls.append(("cos", x.copy()))
        return 1.0 - x ** 2 / 2.0 + x ** 3 / 12.0


@contextlib.contextmanager
def surrogate_trig(active):
    if not active:
        yield None
        return
    P = drive.pf()
    import importlib
    mods = [importlib.import_module("pyfvtool." + m) for m in
            ("diffusion", "advection", "calculus", "boundary", "averaging", "mesh", "cell", "source")]
    proxy = NpProxy(drive.np())
    saved = [(m, m.np) for m in mods if hasattr(m, "np")]
    for m, _ in saved:
        m.np = proxy
    try:
        yield proxy
    finally:
        for m, real in saved:
            m.np = real


# ----------------------------------------------------------------------------- exact helpers
def enc(x):
    x = Fr(x)
    return [x.numerator, x.denominator]


def dec(q):
    return Fr(q[0], q[1])


def nested(shape, fn):
    """nested lists of shape `shape` with entries fn(index tuple)"""
    def rec(prefix, rest):
        if not rest:
            return fn(tuple(prefix))
        return [rec(prefix + [i], rest[1:]) for i in range(rest[0])]
    return rec([], list(shape))


def to_float_array(nest):
    np = drive.np()
    def rec(x):
        if isinstance(x, list) and len(x) == 2 and all(isinstance(v, int) for v in x):
            return x[0] / x[1]
        return [rec(v) for v in x]
    return np.array(rec(nest), dtype=float)


def axis_unit_of(cfg, a):
    return drive.axis_unit(cfg, a)


def dims_of(cfg):
    return [len(f) - 1 for f in cfg["faces"]]


def face_shape(dims, a):
    return [n + (1 if b == a else 0) for b, n in enumerate(dims)]


def trans_shape(dims, a):
    s = [n for b, n in enumerate(dims) if b != a]
    return s if s else [1]


def sur_sin(t):
    return t * (4 - t) / 4


def gscale(cfg, a, P):
    """gradient scale G of axis a on the line through interior cell P (1-based indices)"""
    cls = cfg["cls"]
    lab = drive.AXIS_LABELS[cls][a]
    if lab not in ("theta", "phi"):
        return Fr(1)
    rf = [dec(q) for q in cfg["faces"][0]]
    rp = (rf[P[0] - 1] + rf[P[0]]) / 2
    if lab == "theta":
        return rp
    tf = [dec(q) for q in cfg["faces"][1]]
    tp = (tf[P[1] - 1] + tf[P[1]]) / 2
    return rp * sur_sin(tp)


# ----------------------------------------------------------------------------- generation
def _sph_theta_ok(seq):
    """SphericalGrid3D with the surrogate metric: keep s(theta_P) in {3/4, 15/16, 1} so that all
    denominators stay small (TLC has 32-bit integers)"""
    return all((seq[i] + seq[i + 1]) / 2 not in (Fr(1, 2), Fr(7, 2)) for i in range(len(seq) - 1))


def pick_faces(rng, cls, a, n):
    lab = drive.AXIS_LABELS[cls][a]
    if cls == "SphericalGrid3D" and lab == "theta":
        pool = [Fr(v) for v in (0, 1, 2, 3, 4)]
        n = min(n, 2)          # every 4-face subset has a cell centre at 1/2 or 7/2
        while True:
            seq = sorted(rng.sample(pool, n + 1))
            if _sph_theta_ok(seq):
                return seq
    if cls == "SphericalGrid3D" and lab == "r":
        pool = [Fr(v) for v in (0, 1, 2, 4)]
        return sorted(rng.sample(pool, min(n, 3) + 1))
    if lab in ("theta", "phi"):
        pool = ANG_VALS if lab == "theta" else [Fr(0), Fr(1), Fr(2), Fr(3), Fr(4), Fr(6)]
        if n + 1 > len(pool):
            n = len(pool) - 1
        return sorted(rng.sample(pool, n + 1))
    pool = [Fr(v) for v in LIN_VALS]
    if rng.random() < 0.25:               # (N, L)-like uniform spacing
        h = rng.choice([Fr(1, 2), Fr(1), Fr(2)])
        lo = Fr(0) if lab != "r" or rng.random() < 0.6 else Fr(rng.choice([1, 2]))
        return [lo + k * h for k in range(n + 1)]
    return sorted(rng.sample(pool, n + 1))


LIMITERS = ["CHARM", "HCUS", "HQUICK", "ospre", "VanLeer", "VanAlbada1", "VanAlbada2", "MinMod", "SUPERBEE",
            "Sweby", "Osher", "Koren", "smart", "MUSCL", "QUICK", "UMIST"]


def uniform_faces(rng, cls, a, n):
    lab = drive.AXIS_LABELS[cls][a]
    if cls == "SphericalGrid3D" and lab == "theta":
        return [Fr(1) + Fr(k, 2) * 0 + k * Fr(2, max(n, 1)) * 0 + Fr(k) * Fr(2, n) for k in range(n + 1)] if n in (1, 2) else \
            [Fr(1), Fr(2), Fr(3)]
    h = rng.choice([Fr(1, 2), Fr(1), Fr(2)])
    lo = Fr(0) if lab not in ("r",) or rng.random() < 0.5 else Fr(1)
    if lab == "theta":
        lo = Fr(1, 2)
        h = rng.choice([Fr(1, 2), Fr(1)])
    return [lo + k * h for k in range(n + 1)]


def gen_config(rng, cls, nmax=3, closed=False, allow_periodic=True, kinds=None, uniform_periodic=True,
               uniform=False, nmin=1, nlim=None, faces_override=None, force_periodic=None, nmax3=None,
               periodic_flag=None):
    d = drive.dim(cls)
    cap = nmax if d < 3 else (nmax3 or min(nmax, 2 if not uniform else 3))
    if uniform:
        faces = [uniform_faces(rng, cls, a, rng.randint(min(nmin, cap), cap)) for a in range(d)]
    else:
        faces = [pick_faces(rng, cls, a, rng.randint(1, cap)) for a in range(d)]
    if faces_override is not None:
        faces = [list(f) for f in faces_override]
    dims = [len(f) - 1 for f in faces]
    cfg = {"cls": cls, "aunit": "sur" if cls == "SphericalGrid3D" else "rad",
           "faces": [[enc(x) for x in f] for f in faces]}
    full = [n + 2 for n in dims]

    def face_field(vals, zero_boundary):
        out = []
        for a in range(d):
            shp = face_shape(dims, a)
            def fn(ix, a=a):
                if zero_boundary and (ix[a] == 0 or ix[a] == dims[a]):
                    return enc(0)
                return enc(rng.choice(vals))
            out.append(nested(shp, fn))
        return out
    cfg["D"] = face_field([0, 1, 2, 3], bool(closed))
    cfg["u"] = face_field([-2, -1, 0, 1, 2], bool(closed))
    per_axes = []
    if closed == "periodic":
        # periodic closure: uniform-ended, non-radial axes (and not the polar angle of a sphere)
        # get periodic coefficient fields (face N = face 0) instead of zero boundary coefficients
        for a in range(d):
            lab = drive.AXIS_LABELS[cls][a]
            uni = (faces[a][1] - faces[a][0]) == (faces[a][-1] - faces[a][-2])
            if lab != "r" and not (cls == "SphericalGrid3D" and lab == "theta") and uni and rng.random() < 0.7:
                per_axes.append(a)
        if force_periodic is not None:
            per_axes = sorted(force_periodic)
        for key, vals in (("D", [1, 2, 3]), ("u", [-2, -1, 1, 2])):
            for a in per_axes:
                comp = cfg[key][a]
                def setf(ix, v, comp=comp):
                    t = comp
                    for k in ix[:-1]:
                        t = t[k]
                    t[ix[-1]] = v
                shp = face_shape(dims, a)
                for ix in itertools.product(*[range(n) for n in shp]):
                    if ix[a] == 0:
                        v = enc(rng.choice(vals))
                        setf(ix, v)
                        jx = list(ix); jx[a] = dims[a]
                        setf(tuple(jx), v)
    mode = rng.random()
    if mode < 0.5:        # upwind direction = same sign pattern, different magnitudes
        cfg["uup"] = [_map(c, lambda q: enc(dec(q) * 3)) for c in cfg["u"]]
    elif mode < 0.8:      # independent direction field without exact zeros
        cfg["uup"] = face_field([-2, -1, 1, 2], False)
    else:                 # independent direction field with exact zeros where u may be non-zero
        cfg["uup"] = face_field([-1, 0, 0, 1], False)
    cfg["beta"] = nested(dims, lambda ix: enc(rng.choice([0, 1, 2])))
    cfg["gamma"] = nested(dims, lambda ix: enc(rng.choice([-2, -1, 0, 1, 2, 3])))
    cfg["alpha"] = nested(dims, lambda ix: enc(rng.choice([1, 2, 3])))
    cfg["phi"] = nested(full, lambda ix: enc(rng.choice([-2, -1, 0, 1, 2, 3])))
    cfg["dt"] = enc(rng.choice([Fr(1, 10), Fr(1), Fr(10), Fr(1000)]))
    cfg["lam"] = enc(rng.choice([Fr(-2), Fr(1, 2), Fr(3)]))
    cfg["limiters"] = rng.sample(LIMITERS, nlim or 3)
    cfg["const"] = enc(rng.choice([-2, 1, 3]))
    cfg["lin_alpha"] = enc(rng.choice([-1, 0, 2]))
    cfg["lin_beta"] = [enc(rng.choice([-2, -1, 1, 3])) for _ in range(d)]
    # boundary conditions
    bc = {}
    for a in range(d):
        lo, hi = SIDES[a]
        radial = drive.AXIS_LABELS[cls][a] == "r"
        uniform_ends = (faces[a][1] - faces[a][0]) == (faces[a][-1] - faces[a][-2])
        per = (allow_periodic and not radial and rng.random() < 0.25
               and (uniform_ends or not uniform_periodic))
        if closed == "periodic":
            per = a in per_axes
        elif force_periodic is not None:
            per = a in force_periodic
        flag = (periodic_flag or rng.choice(["lo", "hi", "both"])) if per else None
        for s, high in ((lo, False), (hi, True)):
            shp = trans_shape(dims, a)
            kind = rng.choice(kinds or ["dirichlet", "neumann", "robin", "robin"])
            while True:
                if kind == "dirichlet":
                    A = nested(shp, lambda ix: Fr(0)); B = nested(shp, lambda ix: Fr(1))
                elif kind == "neumann":
                    A = nested(shp, lambda ix: Fr(1)); B = nested(shp, lambda ix: Fr(0))
                else:
                    A = nested(shp, lambda ix: Fr(rng.choice([-2, -1, 1, 2])))
                    B = nested(shp, lambda ix: Fr(rng.choice([-2, -1, 1, 2])))
                if _nonsingular(cfg, a, high, A, B, dims):
                    break
            C = nested(shp, lambda ix: Fr(rng.choice([-2, -1, 0, 1, 2])))
            bc[s] = {"a": _map(A, enc), "b": _map(B, enc), "c": _map(C, enc), "kind": kind,
                     "periodic": bool(per and ((flag == "lo" and not high) or (flag == "hi" and high) or flag == "both"))}
    cfg["bc"] = bc
    cfg["closed"] = closed
    return cfg


def _map(nest, f):
    if isinstance(nest, list) and not (len(nest) == 2 and all(isinstance(v, int) for v in nest)):
        return [_map(v, f) for v in nest]
    return f(nest)


def _flat_pairs(nest):
    """the [n, d] leaves of a nested list of encoded rationals"""
    if isinstance(nest, list) and len(nest) == 2 and all(isinstance(v, int) for v in nest):
        yield nest
    elif isinstance(nest, list):
        for v in nest:
            yield from _flat_pairs(v)


def _flat(nest):
    if isinstance(nest, list):
        for v in nest:
            yield from _flat(v)
    else:
        yield nest


def _nonsingular(cfg, a, high, A, B, dims):
    faces = [dec(q) for q in cfg["faces"][a]]
    dend = (faces[-1] - faces[-2]) if high else (faces[1] - faces[0])
    others = [b for b in range(len(dims)) if b != a]
    shp = trans_shape(dims, a)
    for ix in itertools.product(*[range(n) for n in shp]):
        P = [1] * len(dims)
        P[a] = dims[a] if high else 1
        for k, b in enumerate(others):
            P[b] = ix[k] + 1
        av = A; bv = B
        for k in ix:
            av = av[k]; bv = bv[k]
        G = gscale(cfg, a, P)
        q = av / (G * dend)
        coef = (bv / 2 + q) if high else (bv / 2 - q)
        if coef == 0:
            return False
    return True


def systematic_configs(seed=0, classes=None, variants=(True, False), closed=False):
    """deterministic family: for every grid class two non-uniform grids with two cells per axis
    (sizes ascending / descending, so that first and last cell always differ) times every
    combination of velocity signs per axis - the inputs on which boundary corrections of one side,
    one axis and one sign differ from their siblings"""
    import random as _r
    out = []
    for cls in classes or drive.CLASSES:
        d = drive.dim(cls)
        for asc in variants:               # True: ascending sizes, False: descending, "uni": uniform
            for signs in itertools.product([1, -1], repeat=d):
                rng = _r.Random(hash((seed, cls, asc, signs)) & 0xffffffff)
                cfg = gen_config(rng, cls, nmax=2, allow_periodic=False)
                faces = []
                for a in range(d):
                    lab = drive.AXIS_LABELS[cls][a]
                    lo = Fr(1) if lab in ("r", "theta") else Fr(0)
                    steps = [Fr(1), Fr(2)] if asc else [Fr(2), Fr(1)]
                    if cls == "SphericalGrid3D" and lab == "theta":
                        lo, steps = (Fr(1), [Fr(1), Fr(1)])       # keep the surrogate metric tame
                        if not asc:
                            lo, steps = (Fr(0), [Fr(2), Fr(1)])
                    if cls == "SphericalGrid3D" and lab == "r":
                        lo, steps = ((Fr(1), [Fr(1), Fr(2)]) if asc else (Fr(0), [Fr(2), Fr(2)]))
                    if asc == "uni":
                        lo, steps = (Fr(1) if lab in ("r", "theta") else Fr(0)), [Fr(1), Fr(1)]
                    faces.append([lo, lo + steps[0], lo + steps[0] + steps[1]])
                cfg["faces"] = [[enc(x) for x in f] for f in faces]
                dims = [2] * d
                full = [4] * d
                # closed: coefficients vanish on the domain boundary (the one interior face per grid line carries them)
                inner = lambda ix, a: not closed or (0 < ix[a] < dims[a])
                cfg["u"] = [nested(face_shape(dims, a), lambda ix, a=a: enc(signs[a] * rng.choice([1, 2]) if inner(ix, a) else 0)) for a in range(d)]
                cfg["uup"] = [nested(face_shape(dims, a), lambda ix, a=a: enc(signs[a] * rng.choice([1, 3]) if inner(ix, a) else 0)) for a in range(d)]
                cfg["D"] = [nested(face_shape(dims, a), lambda ix, a=a: enc(rng.choice([1, 2, 3]) if inner(ix, a) else 0)) for a in range(d)]
                cfg["beta"] = nested(dims, lambda ix: enc(rng.choice([0, 1, 2])))
                cfg["gamma"] = nested(dims, lambda ix: enc(rng.choice([-2, -1, 0, 1, 2, 3])))
                cfg["alpha"] = nested(dims, lambda ix: enc(rng.choice([1, 2, 3])))
                cfg["phi"] = nested(full, lambda ix: enc(rng.choice([-2, -1, 0, 1, 2, 3])))
                bc = {}
                for a in range(d):
                    for s_ in SIDES[a]:
                        shp = trans_shape(dims, a)
                        bc[s_] = {"a": nested(shp, lambda ix: enc(0)), "b": nested(shp, lambda ix: enc(1)),
                                  "c": nested(shp, lambda ix: enc(rng.choice([-1, 0, 1, 2]))), "periodic": False,
                                  "kind": "dirichlet"}
                cfg["bc"] = bc
                cfg["closed"] = bool(closed)
                cfg["systematic"] = True
                out.append(cfg)
    return out


def large_configs(seed=0, closed=False, **kw):
    """deterministic family: one larger non-uniform grid per class (5 cells in 1D, 4 x 3 in 2D, 4 x 2 x 2 in 3D;
    SphericalGrid3D 3 x 2 x 4 within its restricted pools) - inputs on which an index that happens to be right
    for the first two or three cells, or next to a boundary, is wrong somewhere"""
    import random as _r
    F = lambda *xs: [Fr(x) for x in xs]
    lin5, rad5 = F(0, 1, 3, 4, 6, 7), F(1, 2, 4, 5, 7, 8)
    lin4, rad4 = F(0, 1, 3, 4, 5), F(1, 2, 4, 5, 6)
    table = {
        "Grid1D": [lin5], "CylindricalGrid1D": [rad5], "SphericalGrid1D": [rad5],
        "Grid2D": [lin4, F(0, 2, 3, 4)], "CylindricalGrid2D": [rad4, F(0, 2, 3, 4)],
        "PolarGrid2D": [rad4, [Fr(1, 2), Fr(1), Fr(2), Fr(3)]],
        "Grid3D": [lin4, F(0, 1, 3), F(0, 2, 3)], "CylindricalGrid3D": [rad4, [Fr(1, 2), Fr(1), Fr(2)], F(0, 2, 3)],
        "SphericalGrid3D": [F(0, 1, 2, 4), F(1, 2, 3), F(0, 1, 2, 3, 4)],
    }
    out = []
    for cls in drive.CLASSES:
        rng = _r.Random(hash((seed, cls, "large", str(closed))) & 0xffffffff)
        cfg = gen_config(rng, cls, closed=closed, allow_periodic=False, faces_override=table[cls], **kw)
        cfg["systematic"] = "large"
        out.append(cfg)
    return out


def periodic_systematic_configs(closed=False, seed=0):
    """deterministic family: for every grid class and every axis that can be periodic, that axis periodic
    (two equal cells) and every OTHER axis with two cells of different sizes - the end-cell ratios of the
    axes differ pairwise (1 on the periodic axis, 2 and 1/2 on the others), which is what a periodic
    branch that looks at the wrong axis gets wrong"""
    import random as _r
    out = []
    for cls in drive.CLASSES:
        d = drive.dim(cls)
        for pa in range(d):
            lab = drive.AXIS_LABELS[cls][pa]
            if lab == "r" or (cls == "SphericalGrid3D" and lab == "theta"):
                continue
            faces, k = [], 0
            for a in range(d):
                la = drive.AXIS_LABELS[cls][a]
                lo = Fr(1) if la in ("r", "theta") else Fr(0)
                if a == pa:
                    steps = [Fr(1), Fr(1)]
                elif cls == "SphericalGrid3D" and la == "theta":
                    lo, steps = Fr(0), [Fr(2), Fr(1)]
                elif cls == "SphericalGrid3D" and la == "r":
                    lo, steps = Fr(1), [Fr(1), Fr(2)]
                else:
                    steps = [[Fr(1), Fr(2)], [Fr(2), Fr(1)]][k % 2]
                    k += 1
                faces.append([lo, lo + steps[0], lo + steps[0] + steps[1]])
            for flag in ("lo", "hi", "both"):      # the flag may sit on either side of the pair, or on both
                rng = _r.Random(hash((seed, cls, pa, str(closed), flag)) & 0xffffffff)
                cfg = gen_config(rng, cls, closed=closed, faces_override=faces, force_periodic={pa}, nmax=2,
                                 periodic_flag=flag)
                cfg["systematic"] = "periodic"
                out.append(cfg)
    return out


def gen_means_config(rng, cls, nmax=3, positive=True, zeros=False, nmax3=None):
    """cell sizes in {1, 2} (integer widths) and, for positive data, sixth powers {1, 64, 729}
    so that every weighted geometric mean is rational"""
    cfg = gen_config(rng, cls, nmax=nmax, allow_periodic=False, nmax3=nmax3)
    d = drive.dim(cls)
    faces = []
    for a in range(d):
        lab = drive.AXIS_LABELS[cls][a]
        n = len(cfg["faces"][a]) - 1
        steps = [rng.choice([1, 2]) for _ in range(n)]
        lo = Fr(1) if lab in ("r", "theta") else Fr(0)
        if cls == "SphericalGrid3D" and lab == "theta":
            steps = steps[:2] if sum(steps[:2]) <= 2 else [1, 1][:n]
            steps = steps[:max(1, min(n, 2))]
            if sum(steps) > 2:
                steps = [1] * len(steps)
        f = [lo]
        for st in steps:
            f.append(f[-1] + st)
        faces.append(f)
    cfg["faces"] = [[enc(x) for x in f] for f in faces]
    dims = [len(f) - 1 for f in faces]
    full = [n + 2 for n in dims]
    if positive:
        vals = [1, 64, 729]
    elif zeros:
        vals = [0, 0, 1, 2, 4]
    else:
        vals = [-2, -1, 0, 1, 2, 3]
    cfg["phi"] = nested(full, lambda ix: enc(rng.choice(vals)))
    cfg["u"] = [nested(face_shape(dims, a), lambda ix: enc(rng.choice([-2, -1, 0, 1, 2]))) for a in range(d)]
    cfg["uup"] = cfg["u"]
    cfg["D"] = [nested(face_shape(dims, a), lambda ix: enc(1)) for a in range(d)]
    for key in ("beta", "gamma", "alpha"):
        cfg[key] = nested(dims, lambda ix: enc(1))
    for a in range(d):
        for s_ in SIDES[a]:
            shp = trans_shape(dims, a)
            cfg["bc"][s_] = {"a": nested(shp, lambda ix: enc(1)), "b": nested(shp, lambda ix: enc(0)),
                             "c": nested(shp, lambda ix: enc(0)), "periodic": False, "kind": "neumann"}
    cfg["data"] = "positive" if positive else ("zeros" if zeros else "arbitrary")
    cfg["const"] = enc(rng.choice([1, 3]))
    return cfg


# ----------------------------------------------------------------------------- building
class Ctx:
    pass


def build(cfg):
    P, np = drive.pf(), drive.np()
    c = Ctx()
    c.cfg = cfg
    c.m = drive.make_mesh({"cls": cfg["cls"], "ctor": "faces", "faces": cfg["faces"], "aunit": cfg["aunit"]})
    c.dims = dims_of(cfg)
    d = len(c.dims)

    def facevar(key):
        comps = [to_float_array(cfg[key][a]) for a in range(d)] + [np.array([])] * (3 - d)
        return P.FaceVariable(c.m, comps[0], comps[1], comps[2])
    c.D, c.u, c.uup = facevar("D"), facevar("u"), facevar("uup")
    c.bc = make_bc(c.m, cfg["bc"], d)
    c.phi_full = to_float_array(cfg["phi"])
    return c


def make_bc(m, bcj, d, scale=None):
    P, np = drive.pf(), drive.np()
    bc = P.BoundaryConditions(m)
    for a in range(d):
        for s in SIDES[a]:
            side = getattr(bc, s)
            f = 1.0 if scale is None else float(scale)
            for k in ("a", "b", "c"):
                arr = to_float_array(bcj[s][k]) * f
                getattr(side, k)[:] = arr.reshape(getattr(side, k).shape)
            if bcj[s]["periodic"]:
                side.periodic = True
    return bc


def interior(arr):
    sl = tuple(slice(1, -1) for _ in arr.shape)
    return arr[sl]


# ----------------------------------------------------------------------------- observing
class Entries(list):
    """list of [row cell, col cell, [n,d]]: marks matrix-shaped observations, so that cell indices such as
    (1, 0) are never mistaken for the `unliftable' marker [1, 0] (opscheck.outputs_with_unknown)"""


def mat_entries(M, dims):
    """scipy sparse matrix -> canonical list of [row cell, col cell, [n,d]] (zeros dropped)"""
    np = drive.np()
    full = [n + 2 for n in dims]
    coo = M.tocoo()
    acc = {}
    for r, cc, v in zip(coo.row, coo.col, coo.data):
        acc[(int(r), int(cc))] = acc.get((int(r), int(cc)), 0.0) + float(v)
    out = Entries()
    for (r, cc), v in sorted(acc.items()):
        q = lift.lift_enc(v)
        if q == [0, 1]:
            continue
        out.append([[int(x) for x in np.unravel_index(r, full)], [int(x) for x in np.unravel_index(cc, full)], q])
    return out


def dense_entries(A, dims):
    """dense (ncells x ncells) array -> entries, as mat_entries"""
    np = drive.np()
    full = [n + 2 for n in dims]
    out = Entries()
    rs, cs = np.nonzero(A)
    for r, cc in zip(rs, cs):
        q = lift.lift_enc(A[r, cc])
        if q == [0, 1]:
            continue
        out.append([[int(x) for x in np.unravel_index(int(r), full)], [int(x) for x in np.unravel_index(int(cc), full)], q])
    return out


def vec_nested(v, dims):
    np = drive.np()
    full = [n + 2 for n in dims]
    return lift.lift_array(np.asarray(v, dtype=float).reshape(full))[0]


def face_nested(F, d):
    comps = [F._xvalue, F._yvalue, F._zvalue][:d]
    return [lift.lift_array(drive.np().asarray(c, dtype=float))[0] for c in comps]


def chain_matrix(c, fn):
    """matrix whose column k is fn(CellVariable with full array = unit vector e_k)"""
    P, np = drive.pf(), drive.np()
    full = [n + 2 for n in c.dims]
    ncell = int(np.prod(full))
    A = np.zeros((ncell, ncell))
    for k in range(ncell):
        e = np.zeros(ncell)
        e[k] = 1.0
        v = P.CellVariable(c.m, e.reshape(full))
        A[:, k] = np.asarray(fn(v), dtype=float).ravel()
    return A


def observe(cfg, want):
    """run the real builders needed for the outputs named in `want`"""
    P, np = drive.pf(), drive.np()
    obs = {}
    with surrogate_trig(cfg["aunit"] == "sur") as proxy, warnings.catch_warnings(), \
            np.errstate(all="ignore"), contextlib.redirect_stdout(io.StringIO()):
        warnings.simplefilter("ignore")
        c = build(cfg)
        d = len(c.dims)
        W = set(want)
        if "volume" in W:
            import math
            e = 1 if cfg["cls"] in ("CylindricalGrid1D", "SphericalGrid1D", "CylindricalGrid2D") else 0
            if cfg["cls"] == "SphericalGrid3D":      # radian angles: the code's formula carries 1/pi
                e = -1
            obs["volume"] = lift.lift_array(np.asarray(c.m.cellvolume, dtype=float) / math.pi ** e)[0]
        if "Mdiff" in W:
            obs["Mdiff"] = mat_entries(P.diffusionTerm(c.D), c.dims)
        if "Mconv" in W:
            obs["Mconv"] = mat_entries(P.convectionTerm(c.u), c.dims)
        if "Mup" in W:
            obs["Mup"] = mat_entries(P.convectionUpwindTerm(c.u), c.dims)
        if "Mupalt" in W:
            obs["Mupalt"] = mat_entries(P.convectionUpwindTerm(c.u, c.uup), c.dims)
        if "chain_diff" in W:
            obs["chain_diff"] = dense_entries(chain_matrix(c, lambda v: P.divergenceTerm(c.D * P.gradientTerm(v))), c.dims)
        if "chain_conv" in W:
            obs["chain_conv"] = dense_entries(chain_matrix(c, lambda v: P.divergenceTerm(c.u * P.linearMean(v))), c.dims)
        if "chain_up" in W:
            obs["chain_up"] = dense_entries(chain_matrix(c, lambda v: P.divergenceTerm(c.u * P.upwindMean(v, c.u))), c.dims)
        if "chain_upalt" in W:
            obs["chain_upalt"] = dense_entries(chain_matrix(c, lambda v: P.divergenceTerm(c.u * P.upwindMean(v, c.uup))), c.dims)
        if "divu" in W:
            obs["divu"] = vec_nested(P.divergenceTerm(c.u), c.dims)
        def newphi():
            # every builder gets its own fresh input object: a builder that (wrongly) modifies its
            # input must not pollute the observation of another builder
            return P.CellVariable(c.m, c.phi_full.copy())
        phi = newphi()
        if "grad" in W:
            obs["grad"] = face_nested(P.gradientTerm(newphi()), d)
        if "linmean" in W:
            obs["linmean"] = face_nested(P.linearMean(newphi()), d)
        if "arithmean" in W:
            obs["arithmean"] = face_nested(P.arithmeticMean(newphi()), d)
        if "harmmean" in W:
            obs["harmmean"] = face_nested(P.harmonicMean(newphi()), d)
        if "upmean" in W:
            pu = newphi()
            obs["upmean"] = face_nested(P.upwindMean(pu, c.u), d)
            obs["upmean_again"] = face_nested(P.upwindMean(pu, c.u), d)      # same input object, second call
        if "geomean" in W:
            obs["geomean"] = face_nested(P.geometricMean(newphi()), d)
        if "meanflags" in W:
            # degree-1 homogeneity over 30 decades (floating point, relative 1e-9) and independence of the input's
            # dtype / memory layout (relative 1e-12: integer powers may differ from float powers in the last bit)
            fns = {"linear": P.linearMean, "arithmetic": P.arithmeticMean, "harmonic": P.harmonicMean,
                   "geometric": P.geometricMean, "upwind": lambda v: P.upwindMean(v, c.u)}
            comps = lambda F: np.concatenate([np.asarray(x, dtype=float).ravel() for x in (F._xvalue, F._yvalue, F._zvalue)[:d]])
            base_full = np.abs(c.phi_full) if cfg.get("data") != "arbitrary" else c.phi_full
            homog, forms = {}, {}
            for nm, fn in fns.items():
                if nm == "geometric" and np.any(base_full < 0):
                    continue
                ref = comps(fn(P.CellVariable(c.m, base_full.copy())))
                ok = True
                for K in (1e-18, 1e-6, 1e12):
                    got = comps(fn(P.CellVariable(c.m, K * base_full)))
                    ok = ok and bool(np.all(np.abs(got - K * ref) <= 1e-9 * K * np.maximum(np.abs(ref), 1e-300))
                                     and np.all((got == 0) == (ref == 0)))
                homog[nm] = ok
                alt = {"int": base_full.astype(np.int64), "fortran": np.asfortranarray(base_full.copy())}
                forms[nm] = all(bool(np.allclose(comps(fn(P.CellVariable(c.m, arr))), ref, rtol=1e-12, atol=0.0))
                                for arr in alt.values())
            obs["meanflags"] = {"homogeneous": homog, "forms": forms}
        if "constmeans" in W:
            cv = float(dec(cfg["const"])) if dec(cfg["const"]) > 0 else 2.0
            cphi = P.CellVariable(c.m, cv * np.ones([n + 2 for n in c.dims]))
            obs["constmeans"] = {"linear": face_nested(P.linearMean(cphi), d),
                                 "arithmetic": face_nested(P.arithmeticMean(cphi), d),
                                 "harmonic": face_nested(P.harmonicMean(cphi), d),
                                 "geometric": face_nested(P.geometricMean(cphi), d),
                                 "upwind": face_nested(P.upwindMean(cphi, c.u), d)}
        if "linmean_linear" in W:
            # cell-centre samples of  alpha + sum beta_a x_a, ghost centres mirrored across the boundary
            cen = []
            for a in range(d):
                f = [float(dec(q)) for q in cfg["faces"][a]]
                cc = [0.5 * (f[i] + f[i + 1]) for i in range(len(f) - 1)]
                cen.append(np.array([f[0] - 0.5 * (f[1] - f[0])] + cc + [f[-1] + 0.5 * (f[-1] - f[-2])]))
            grids = np.meshgrid(*cen, indexing="ij")
            lin = float(dec(cfg["lin_alpha"])) + sum(float(dec(cfg["lin_beta"][a])) * grids[a] for a in range(d))
            obs["linmean_linear"] = face_nested(P.linearMean(P.CellVariable(c.m, lin)), d)
        if "Msrc" in W:
            obs["Msrc"] = mat_entries(P.linearSourceTerm(P.CellVariable(c.m, to_float_array(cfg["beta"]))), c.dims)
        if "Rsrc" in W:
            obs["Rsrc"] = vec_nested(P.constantSourceTerm(P.CellVariable(c.m, to_float_array(cfg["gamma"]))), c.dims)
        if "builderforms" in W:
            # extended coverage: every builder gives the same numbers (relative 1e-12) when its coefficient /
            # field arrives integer-typed, Fortran-ordered or as a strided view
            def tr(a_, form):
                if a_.size == 0 or form == "plain":
                    return a_.copy()
                return {"int": lambda: a_.astype(np.int64), "fortran": lambda: np.asfortranarray(a_.copy()),
                        "strided": lambda: np.repeat(a_, 2, axis=0)[::2]}[form]()
            def mkF(F, form):
                return P.FaceVariable(c.m, *[tr(np.asarray(x), form) for x in (F._xvalue, F._yvalue, F._zvalue)])
            def mkC(form):
                return P.CellVariable(c.m, tr(c.phi_full, form))
            fcomps = lambda R: np.concatenate([np.asarray(x, dtype=float).ravel() for x in (R._xvalue, R._yvalue, R._zvalue)])
            SB = P.fluxLimiter("SUPERBEE")
            tests = {
                "diffusionTerm": lambda f: P.diffusionTerm(mkF(c.D, f)).toarray(),
                "convectionTerm": lambda f: P.convectionTerm(mkF(c.u, f)).toarray(),
                "convectionUpwindTerm": lambda f: P.convectionUpwindTerm(mkF(c.u, f), mkF(c.uup, f)).toarray(),
                "divergenceTerm": lambda f: np.asarray(P.divergenceTerm(mkF(c.u, f))),
                "tvd_velocity": lambda f: np.asarray(P.convectionTVDupwindRHSTerm(mkF(c.u, f), mkC("plain"), SB)),
                "tvd_field": lambda f: np.asarray(P.convectionTVDupwindRHSTerm(c.u, mkC(f), SB)),
                "gradientTerm": lambda f: fcomps(P.gradientTerm(mkC(f))),
                "transientTerm": lambda f: np.asarray(P.transientTerm(mkC(f), 0.5, 1.0)[1]),
                "domainIntegral": lambda f: np.array([mkC(f).domainIntegral()]),
                "face_arithmetic": lambda f: fcomps(mkF(c.u, f) * 0.5 + mkF(c.D, f) / 3),
                "cell_arithmetic": lambda f: np.asarray((mkC(f) * 0.5 + mkC(f) / 3)._value),
            }
            flags = {}
            for nm, fn in tests.items():
                ref = fn("plain")
                ok = True
                for form in ("int", "fortran", "strided"):
                    try:
                        y = fn(form)
                        ok = ok and y.shape == ref.shape and bool(np.allclose(ref, y, rtol=1e-12, atol=1e-300, equal_nan=True))
                    except Exception:       # noqa: BLE001
                        ok = False
                flags[nm] = ok
            obs["builderforms"] = flags
        if "srcforms" in W:
            # the source coefficient handed over in other admissible array forms (ghost-inclusive C-ordered /
            # Fortran-ordered / transposed-view / integer-typed, interior Fortran-ordered): same matrix, same vector
            full_shape = [n + 2 for n in c.dims]
            def forms_of(inner):
                padded = np.pad(inner, 1, mode="edge")
                return {"ghost_c": padded.copy(), "ghost_f": np.asfortranarray(padded),
                        "ghost_t": np.ascontiguousarray(padded.T).T, "ghost_int": padded.astype(np.int64),
                        "inner_f": np.asfortranarray(inner.copy())}
            beta_i, gam_i = to_float_array(cfg["beta"]), to_float_array(cfg["gamma"])
            obs["srcforms"] = {"M": {nm: mat_entries(P.linearSourceTerm(P.CellVariable(c.m, arr)), c.dims)
                                     for nm, arr in forms_of(beta_i).items()},
                               "R": {nm: vec_nested(P.constantSourceTerm(P.CellVariable(c.m, arr)), c.dims)
                                     for nm, arr in forms_of(gam_i).items()}}
        if "ghost" in W:
            from pyfvtool.boundary import cellValuesWithBoundaries
            obs["ghost"] = lift.lift_array(cellValuesWithBoundaries(interior(c.phi_full), c.bc))[0]
        if "Mbc" in W or "Rbc" in W:
            Mbc, Rbc = P.boundaryConditionsTerm(c.bc)
            obs["Mbc"] = mat_entries(Mbc, c.dims)
            obs["Rbc"] = vec_nested(Rbc, c.dims)
        if "ghostS" in W:
            from pyfvtool.boundary import cellValuesWithBoundaries
            bcs = make_bc(c.m, cfg["bc"], d, scale=dec(cfg["lam"]))
            obs["ghostS"] = lift.lift_array(cellValuesWithBoundaries(interior(c.phi_full), bcs))[0]
            MbcS, RbcS = P.boundaryConditionsTerm(bcs)
            obs["MbcS"] = mat_entries(MbcS, c.dims)
            obs["RbcS"] = vec_nested(RbcS, c.dims)
        if "celllocs" in W:
            locs = P.cellLocations(c.m)
            locs = [locs] if d == 1 else list(locs)
            obs["celllocs"] = [lift.lift_array(np.asarray(x._value) / axis_unit_of(cfg, a))[0] for a, x in enumerate(locs)]
        if "facelocs" in W:
            fl = P.faceLocations(c.m)
            fl = [fl] if d == 1 else list(fl)
            obs["facelocs"] = [[lift.lift_array(np.asarray(comp, dtype=float))[0]
                                for comp in (X._xvalue, X._yvalue, X._zvalue)[:d]] for X in fl]
        if "gradfixed" in W:
            obs["gradfixed"] = face_nested(P.gradientTermFixedBC(newphi()), d)
        if "facector_scalar" in W:
            obs["facector_scalar"] = face_nested(P.FaceVariable(c.m, float(dec(cfg["const"]))), d)
            tup = tuple(float(dec(q)) for q in cfg["lin_beta"])
            obs["facector_tuple"] = face_nested(P.FaceVariable(c.m, tup), d)
        if "utility" in W:
            from pyfvtool.boundary import BoundaryFace
            rows = []
            for method, args, rev in (("defaultNoFlux", (), False), ("fixedValue", (3.0,), False),
                                      ("fixedGradient", (2.0, 1.0), False), ("fixedGradient", (-1.5, 4.0), False),
                                      ("newtonCooling", (2.0, 3.0, 5.0), False), ("newtonCooling", (2.0, 3.0, 5.0), True)):
                f = BoundaryFace(np.array([7.0, 7.0]), np.array([7.0, 7.0]), np.array([7.0, 7.0]))
                if method == "newtonCooling":
                    f.newtonCooling(*args, reverse_direction=rev)
                elif method == "fixedGradient":
                    f.fixedGradient(args[0], scale_coeffs=args[1])
                else:
                    getattr(f, method)(*args)
                xyz = list(args) + [0.0] * (3 - len(args))
                rows.append({"method": method, "x": lift.lift_enc(xyz[0]), "y": lift.lift_enc(xyz[1]), "z": lift.lift_enc(xyz[2]),
                             "rev": rev, "abc": [lift.lift_enc(f.a[1]), lift.lift_enc(f.b[0]), lift.lift_enc(f.c[1])]})
            obs["utility"] = rows
        if "meshindex" in W:
            G = np.asarray(c.m.cell_numbers())
            G = G.reshape([n + 2 for n in np.asarray(c.m.dims).tolist()]) if G.ndim != d else G
            obs["meshindex"] = {"nums": [[[int(i) for i in idx], int(v)] for idx, v in np.ndenumerate(G)],
                                "corners": [int(x) for x in np.asarray(c.m.corners).ravel()],
                                "edges": [int(x) for x in np.asarray(c.m.edges).ravel()]}
        if "integral" in W:
            import math
            e = {"CylindricalGrid1D": 1, "SphericalGrid1D": 1, "CylindricalGrid2D": 1, "SphericalGrid3D": -1}.get(cfg["cls"], 0)
            obs["integral"] = lift.lift_enc(newphi().domainIntegral() / math.pi ** e)
        if "r_source" in W:
            # beta*phi = gamma alone: cell-local solution gamma/beta (beta shifted by one to be non-zero)
            vs_ = P.CellVariable(c.m, 0.0)
            P.solvePDE(vs_, [P.linearSourceTerm(P.CellVariable(c.m, to_float_array(cfg["beta"]) + 1.0)),
                             P.constantSourceTerm(P.CellVariable(c.m, to_float_array(cfg["gamma"])))])
            obs["r_source"] = lift.lift_array(np.asarray(vs_.value))[0]
        if W & {"f_ctor", "f_apply", "f_solve", "f_explicit", "profile"}:
            inner = interior(c.phi_full)
            v = P.CellVariable(c.m, inner.copy(), c.bc)
            obs["f_ctor"] = lift.lift_array(np.asarray(v._value))[0]
            # the same interior field in other admissible array forms: integer-typed, Fortran-ordered, strided view
            forms = {"int": inner.astype(np.int64), "fortran": np.asfortranarray(inner.copy()),
                     "strided": np.repeat(inner, 2, axis=0)[::2]}
            obs["f_ctor_forms"] = {}
            for nm, arr in forms.items():
                vf = P.CellVariable(c.m, arr, make_bc(c.m, cfg["bc"], d))
                obs["f_ctor_forms"][nm] = lift.lift_array(np.asarray(vf._value))[0]
                if nm == "int":
                    vf.value = arr
                    vf.apply_BCs()
                    obs["f_ctor_forms"]["int_apply"] = lift.lift_array(np.asarray(vf._value))[0]
            v2 = P.CellVariable(c.m, 0.0, make_bc(c.m, cfg["bc"], d))
            v2.value = inner
            v2.apply_BCs()
            obs["f_apply"] = lift.lift_array(np.asarray(v2._value))[0]
            beta1 = to_float_array(cfg["beta"]) + 1.0
            gam = to_float_array(cfg["gamma"])
            v3 = P.CellVariable(c.m, inner.copy(), make_bc(c.m, cfg["bc"], d))
            P.solvePDE(v3, [P.linearSourceTerm(P.CellVariable(c.m, beta1)),
                            P.constantSourceTerm(P.CellVariable(c.m, gam))])
            obs["f_solve"] = lift.lift_array(np.asarray(v3._value))[0]
            snap3 = np.asarray(v3._value).tobytes()
            prof = v3.plotprofile()[-1]
            obs["profile"] = lift.lift_array(np.asarray(prof))[0]
            # reporting is read-only and repeatable: the variable is untouched, a second request gives the same
            prof2 = v3.plotprofile()[-1]
            obs["profile_pure"] = bool(np.asarray(v3._value).tobytes() == snap3
                                       and np.array_equal(np.asarray(prof), np.asarray(prof2), equal_nan=True))
            v4 = P.CellVariable(c.m, inner.copy(), make_bc(c.m, cfg["bc"], d))
            v5 = P.solveExplicitPDE(v4, float(dec(cfg["dt"])), P.constantSourceTerm(P.CellVariable(c.m, gam)))
            obs["f_explicit"] = lift.lift_array(np.asarray(v5._value))[0]
        if W & {"tvd0", "tvd1", "tvdnamed", "tvdconst"}:
            TVD = P.convectionTVDupwindRHSTerm
            if "tvd0" in W:
                obs["tvd0"] = vec_nested(TVD(c.u, newphi(), lambda r: 0.0 * r, c.uup), c.dims)
            if "tvd1" in W:
                obs["tvd1"] = vec_nested(TVD(c.u, newphi(), lambda r: 1.0 + 0.0 * r, c.uup), c.dims)
            if "tvdnamed" in W:
                obs["tvdnamed"] = {nm: vec_nested(TVD(c.u, newphi(), P.fluxLimiter(nm), c.uup), c.dims)
                                   for nm in cfg["limiters"]}
            if "tvdconst" in W:
                cphi = P.CellVariable(c.m, float(dec(cfg["const"])) * np.ones([n + 2 for n in c.dims]))
                obs["tvdconst"] = {nm: vec_nested(TVD(c.u, cphi, P.fluxLimiter(nm), c.uup), c.dims)
                                   for nm in cfg["limiters"]}
        if proxy is not None:
            obs["trig_calls"] = len(proxy.calls)
    return obs
