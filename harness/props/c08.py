"""C08 - redundant axes, axis relabelling, mirroring and periodic shifts change nothing."""
import random

import drive
import opscheck
import symdrive

CLAUSES = ["C08_Geometry", "C08_Diffusion", "C08_Central", "C08_Upwind", "C08_Ghost", "C08_Tvd", "C08_Solve"]
for c in CLAUSES:
    opscheck.NEEDS[c] = []


def gen(rng, cls, **kw):
    return symdrive.gen(rng, cls, **kw)


def run(tier, seed):
    # the generator chooses the pair itself; `classes` only sets the number of draws
    return opscheck.run_property(
        "C08", tier, seed, design=opscheck.design_ops("C08", None), clauses_for=lambda cfg: CLAUSES, n_quick=12, n_thorough=60,
        gen_kw=[{}], generator=gen, observe=symdrive.observe, classes=symdrive.PAIR_KINDS,
        sig_extra=lambda cl, e, v: {"pair": e["cfg"]["label"].split(":")[0],
                                    **({"conv": e["cfg"]["conv"]} if cl == "C08_Solve" else {})},
        rule="pairs (small grid, image under E): 9 extrusions (Grid1D-2D-3D at every position, CylindricalGrid1D to "
             "CylindricalGrid2D / PolarGrid2D, CylindricalGrid2D / PolarGrid2D to CylindricalGrid3D; new axis with 1-2 "
             "cells, no-flux or periodic), all axis permutations and mirrors of Cartesian grids; for each pair the "
             "diffusion/central/upwind matrices applied to a mapped field, ghost values, TVD corrections and the "
             "solvePDE result for mapped data must commute with E (lifted, exact)")
