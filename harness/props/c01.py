"""C01 - closed systems conserve the domain integral (interior face fluxes cancel)."""
import opscheck
import opsdrive

CLOSED = ["C01_ClosedDiffusion", "C01_ClosedCentral", "C01_ClosedUpwind", "C01_ClosedDivergence", "C01_ClosedTvd"]
MID = ["C01_ClosedDiffusionMid", "C01_ClosedCentralMid", "C01_ClosedUpwindMid", "C01_ClosedDivergenceMid",
       "C01_ClosedTvdMid"]
PERIODIC = ["C01_PeriodicDiffusion", "C01_PeriodicCentral", "C01_PeriodicUpwind"]


OPEN = ["C01_OpenDiffusion", "C01_OpenCentral", "C01_OpenUpwind"]


def clauses_for(cfg):
    if cfg["closed"] is False:
        # open boundaries: change of the integral = net boundary flux (geometric face areas); the
        # SphericalGrid3D volumes are a known finding, its open clause is not evaluated
        return OPEN if cfg["cls"] != "SphericalGrid3D" else []
    if cfg["closed"] == "periodic":
        cl = list(PERIODIC)
    else:
        cl = list(CLOSED)
    if cfg["cls"] == "SphericalGrid3D" and cfg["closed"] is True:
        cl += MID
    return cl


STEP = ["C01_ClosedStepCentral", "C01_ClosedStepUpwind", "C01_ClosedStepExplicit", "C01_ClosedStepExplicitUpdate"]
for _c in STEP:
    opscheck.NEEDS[_c] = []


def step_clauses(cfg):
    # the upwind scheme is not conservative across a periodic boundary (known finding): the
    # upwind step clause is still evaluated and reported under that finding
    return STEP


def run(tier, seed):
    import maxdrive
    steps = dict(clauses_for=step_clauses, n_quick=4, n_thorough=40, gen_kw=[{"closed": True}],
                 extra_configs=maxdrive.periodic_systematic(True),
                 generator=maxdrive.gen, observe=maxdrive.observe)
    return opscheck.run_property(
        "C01", tier, seed, design=opscheck.design_ops("C01", None), clauses_for=clauses_for,
        extra_configs=opsdrive.periodic_systematic_configs("periodic") + opsdrive.large_configs(closed=True) + opsdrive.systematic_configs(closed=True, classes=[c for c in opsdrive.drive.CLASSES if c != "SphericalGrid3D"]), n_quick=18, n_thorough=150,
        gen_kw=[{"closed": True}, {"closed": True, "nmax": 2}, {"closed": "periodic"}, {"allow_periodic": False}],
        parts=[steps],
        sig_extra=lambda cl, e, v: ({"periodic": bool(e["obs"].get("periodic_any"))} if cl.startswith("C01_ClosedStep") else {}),
        rule="9 grid classes x seeded non-uniform spacings x coefficient / velocity fields that vanish on the domain "
             "boundary (closed) or are periodic along uniform-ended axes; V-weighted column sums of every flux-form "
             "matrix over the full column set (ghost cells included), V = the cell volumes domainIntegral() uses")
