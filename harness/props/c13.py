"""C13 - flux limiters compute the published formulas, are total and within TVD bounds.

FVLimiters (TLA+) holds the published closed forms in exact rationals; FVDesignLimiter checks
psi(1)=1, the TVD region, the clipping family and symmetry on a rational grid and emits, per
limiter name, the evaluation grid.  The real fluxLimiter(name) is evaluated on that grid as
0-D/1-D/2-D/3-D arrays and at +-10^k (k<=100); FVTraceLimiter evaluates every C13 clause on the
lifted observations.  The TVD-term totality part is validated in props/c13 `tvd_part`.
"""
import contextlib
import io
import math
import warnings

import drive
import lift
import tlcrun
from findings import Report, canon_hash


def observe(req):
    P, np = drive.pf(), drive.np()
    with contextlib.redirect_stdout(io.StringIO()):
        FL0 = P.fluxLimiter(req["name"])
        # the same name is requested again (as a time loop does): the limiter of the SECOND request is the one
        # evaluated on arrays; a request that fails makes every value non-finite (all clauses fail)
        try:
            FL = P.fluxLimiter(req["name"])
        except Exception:       # noqa: BLE001
            FL = lambda r: np.full(np.shape(r), np.nan)
    grid = [lift.frac(q) for q in req["grid"]]
    xs = np.array([float(q) for q in grid])
    n = len(xs)
    pad = (-n) % 12
    xs_p = np.concatenate([xs, np.ones(pad)])
    obs = {}
    with warnings.catch_warnings(), np.errstate(all="ignore"):
        warnings.simplefilter("ignore")
        v0 = np.array([float(FL0(np.float64(x))) for x in xs])                 # 0-D, one by one (first request)
        v1 = np.asarray(FL(xs), dtype=float)
        # the 2-D evaluation uses an instance built with a NON-DEFAULT guard (eps=1e-8): the guard only acts at the
        # removable singularities, so the published closed form must come out all the same
        with contextlib.redirect_stdout(io.StringIO()):
            try:
                FLe = P.fluxLimiter(req["name"], eps=1e-8)
            except Exception:       # noqa: BLE001
                FLe = lambda r: np.full(np.shape(r), np.nan)
        v2 = np.asarray(FLe(xs_p.reshape(-1, 4)), dtype=float).ravel()[:n]
        v3 = np.asarray(FL(xs_p.reshape(-1, 2, 3)), dtype=float).ravel()[:n]
        huge = []
        for k in (3, 4, 6, 8, 12, 16, 20, 50, 100):
            for sg in (1, -1):
                v = float(FL(np.float64(sg * 10.0 ** k)))
                fin = math.isfinite(v) and abs(v) < 1000
                huge.append({"k": k, "sign": sg, "finite": bool(fin), "fp": int(round(v * 1e6)) if fin else 0})
    for key, v in (("0d", v0), ("1d", v1), ("2d", v2), ("3d", v3)):
        obs[key] = [lift.lift_enc(x) for x in v]
    return {"name": req["name"], "grid": req["grid"], "obs": obs,
            "finite": [bool(math.isfinite(x)) for x in v0], "huge": huge}


def fmt_r(req, idx):
    return ",".join(f"{req['grid'][j - 1][0]}/{req['grid'][j - 1][1]}" for j in idx)


def run(tier, seed):
    rep = Report("C13", tier, seed)
    des = tlcrun.run_tlc("FVDesignLimiter.tla", "FVDesignLimiter.cfg", workers=8, timeout=600)
    if not des["ok"]:
        raise tlcrun.MachineryError("FVDesignLimiter failed:\n" + tlcrun.tlc_error_excerpt(des["out"]))
    reqs = des["printed"]
    if len(reqs) < 16:
        raise tlcrun.MachineryError("FVDesignLimiter produced fewer than 16 limiter names")
    episodes = []
    for k, rq in enumerate(reqs):
        e = observe(rq)
        e["id"] = k
        episodes.append(e)
    verdicts, tot = tlcrun.run_chunks("FVTraceLimiter.tla", "FVTraceLimiter.cfg", episodes, "ep", chunk=2)
    by_id = {v["ep"]: v for v in verdicts}
    npts = 0
    for e in episodes:
        v = by_id[e["id"]]
        npts += len(e["grid"]) * 4 + len(e["huge"])
        for clause in v["failing"]:
            cnt = v["count"][clause]
            if clause == "C13_Huge":
                at = ",".join(f"{'-' if e['huge'][j - 1]['sign'] < 0 else ''}1e{e['huge'][j - 1]['k']}" for j in v["first"][clause])
            else:
                at = fmt_r(e, v["first"][clause])
            sig = {"limiter": e["name"], "at": at if cnt <= 3 else f"{cnt} grid points, first {at}"}
            rep.fail(clause, sig, {"limiter": e["name"], "first_failing_r": at, "count": cnt,
                                   "observed_0d": [e["obs"]["0d"][j - 1] for j in v["first"][clause]] if clause != "C13_Huge" else e["huge"]})
    tv = tvd_part(rep, tier, seed)
    cov = {
        "states": des["distinct"] + tot["distinct"] + tv.get("states", 0),
        "transitions": des["states"] + tot["states"] + tv.get("transitions", 0),
        "traces_validated_against_impl": len(episodes) + tv.get("episodes", 0),
        "evaluations": npts + tv.get("evaluations", 0),
        "distinct_nontrivial": sum(len(e["grid"]) for e in episodes),
        "rule": "16 named limiters + 2 unknown names x every point of the rational grid {p/q: |p|<=60, q in {1,2,3,4,5,8}} "
                "plus the zeros of numerators/denominators, each as 0-D/1-D/2-D/3-D array, plus +-10^k for k up to 100; "
                "distinct (name, r) pairs; all are non-trivial evaluations of a closed form",
        "exhaustive": True,
        "tvd_term": tv,
        "samples": [{"name": e["name"], "r": e["grid"][5], "psi_observed": e["obs"]["0d"][5]} for e in episodes[:3]],
    }
    return rep.finish(cov, assumptions=[
        "published closed forms as transcribed in FVLimiters.tla (Sweby; Waterson-Deconinck; the table cited by the code)",
        "values at +-10^k are checked against enclosures, not exactly"])


def tvd_part(rep, tier, seed):
    """TVD correction term totality - filled in by the operator layer (props/tvd.py) when present"""
    try:
        from props import tvd
    except ImportError:
        return {"status": "not built yet"}
    return tvd.c13_part(rep, tier, seed)
