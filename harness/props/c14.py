"""C14 - variable algebra is elementwise, side-effect free and yields independent objects.

Object level: FVLifecycle's Copy / Arith actions (deep copy of the left-most operand's BC object,
fresh ghost layer, disjoint storage) checked by TLC (invariant C14_Independent) and replayed into
real objects.  Value level: the operator table (FVAlgebra.tla) is enumerated by TLC over small
rationals / booleans and every (operator, operand kinds, position) request is executed against
real CellVariables and FaceVariables on all grid classes; results are lifted and validated.
"""
import lifecycle
import tlcrun
from findings import Report, canon_hash
from props.c09 import report_failures


def run(tier, seed):
    rep = Report("C14", tier, seed)
    num, depth = (60, 25) if tier == "quick" else (600, 40)
    behs, sim = lifecycle.simulate("FVLifecycle_sim.cfg", num, depth, seed + 14)
    judge = lifecycle.Judge()
    for k, b in enumerate(behs):
        lifecycle.replay(b, k + seed, judge)
    if judge.actions.get("Arith", 0) + judge.actions.get("Copy", 0) < 10:
        raise tlcrun.MachineryError("vacuity: fewer than 10 Copy/Arith steps replayed")
    report_failures(rep, judge, ("C14_",))
    alg = {}
    try:
        from props import algebra
        alg = algebra.value_level(rep, tier, seed)
    except ImportError:
        alg = {"status": "value-level table not built yet"}
    cov = {
        "states": sim["states"] + alg.get("states", 0), "transitions": sim["states"] + alg.get("transitions", 0),
        "traces_validated_against_impl": len(behs) + alg.get("episodes", 0),
        "evaluations": judge.steps + alg.get("evaluations", 0),
        "distinct_nontrivial": len({canon_hash([[r["name"], r["args"]] for r in b]) for b in behs if len(b) > 3}) + alg.get("distinct", 0),
        "rule": "object level: TLC -simulate behaviours of FVLifecycle with Copy/Arith/funceval replayed on 7 grid classes "
                "(independence of storage and BC objects, operands byte-identical, result BCs = left operand's, ghost layer "
                "consistent); value level: operator table requests enumerated by TLC",
        "exhaustive": False, "replayed_actions": judge.actions, "value_level": alg,
        "samples": [[[r["name"], r["args"]] for r in behs[0][:12]]],
    }
    return rep.finish(cov, assumptions=["arrays on the right are required for CellVariable only (DESIGN 4)"])
