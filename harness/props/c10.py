"""C10 - grid geometry is exact (DESIGN 5/C10).

spec -> code : FVDesignMesh enumerates the bounded mesh configuration space (and checks the
               reference geometry against independent formulas); every configuration is
               replayed into the real constructors.
code -> spec : everything the real mesh reports is lifted to exact rationals and validated by
               FVTraceMesh, which evaluates the C10 predicates of FVProperties on it.
"""
import math

import drive
import lift
import tlcrun
from findings import Report, canon_hash

CFG = {"quick": "FVDesignMesh_quick.cfg", "thorough": "FVDesignMesh_thorough.cfg"}


def observe(cfg):
    n = drive.np()
    try:
        m = drive.make_mesh(cfg)
    except Exception as ex:                      # a valid configuration must construct
        return {"error": f"{type(ex).__name__}: {ex}"}
    d = drive.dim(cfg["cls"])
    labels = drive.AXIS_LABELS[cfg["cls"]]
    bad = 0
    obs = {"dims": [int(x) for x in m.dims]}
    for prop in ("cellsize", "cellcenters", "facecenters"):
        arrs = []
        for a in range(d):
            v = n.asarray(getattr(getattr(m, prop), labels[a]), dtype=float) / drive.axis_unit(cfg, a)
            l, b = lift.lift_array(v)
            bad += b
            arrs.append(l)
        obs[prop] = arrs
    vol = n.asarray(m.cellvolume, dtype=float) / (math.pi ** cfg["piexp"])
    l, b = lift.lift_array(vol.ravel())
    obs["volume"] = l
    obs["unliftable"] = bad + b
    lab = {}
    for prop in ("cellsize", "cellcenters", "facecenters"):
        o = getattr(m, prop)
        tab = {}
        for lb in drive.ALL_LABELS:
            try:
                arr = getattr(o, lb)
                ax = [k + 1 for k, nm in enumerate(("_x", "_y", "_z")) if arr is getattr(o, nm)]
                tab[lb] = ax[0] if ax else -1
            except AttributeError:
                tab[lb] = 0
        lab[prop] = tab
    obs["labels"] = lab
    # a caller scribbles over the array it was handed; the mesh must answer as before
    w = m.cellvolume
    try:
        w[...] = -7.0
    except (ValueError, TypeError):
        pass                                     # a read-only array is fine too
    vol2 = n.asarray(m.cellvolume, dtype=float) / (math.pi ** cfg["piexp"])
    obs["volume_again"] = lift.lift_array(vol2.ravel())[0]
    obs["cellsize_again"] = [lift.lift_array(n.asarray(getattr(m.cellsize, labels[a]), dtype=float)
                                             / drive.axis_unit(cfg, a))[0] for a in range(d)]
    return obs


def nontrivial(cfg):
    if cfg["ctor"] == "NL":
        return any(x > 1 for x in cfg["N"])
    return any(len(f) > 2 or f[0][0] != 0 for f in cfg["faces"])


def run(tier, seed):
    rep = Report("C10", tier, seed)
    des = tlcrun.run_tlc("FVDesignMesh.tla", CFG[tier], workers=16, timeout=3000, heap="8g")
    if not des["ok"]:
        raise tlcrun.MachineryError("design-level model FVDesignMesh failed:\n" + tlcrun.tlc_error_excerpt(des["out"]))
    configs = des["printed"]
    if not configs:
        raise tlcrun.MachineryError("FVDesignMesh produced no configuration")
    episodes = []
    per_class = {}
    for k, cfg in enumerate(configs):
        episodes.append({"id": k, "cfg": cfg, "obs": observe(cfg)})
        per_class[cfg["cls"]] = per_class.get(cfg["cls"], 0) + 1
    missing = [c for c in drive.CLASSES if not per_class.get(c)]
    if missing:
        raise tlcrun.MachineryError(f"vacuity: no configuration for {missing}")
    verdicts, tot = tlcrun.run_chunks("FVTraceMesh.tla", "FVTraceMesh.cfg", episodes, "ep", chunk=800)
    by_id = {v["ep"]: v for v in verdicts}
    for e in episodes:
        v = by_id[e["id"]]
        for clause in v["failing"]:
            sig = {"grid_class": e["cfg"]["cls"]}
            if clause in ("C10_Volume", "C10_VolSum"):
                sig["vol_varies_along"] = ",".join(str(a) for a in sorted(v["detail"]["volVaries"]))
            if clause == "C10_VolSum":
                sig["theta_full"] = v["detail"]["thetaFull"]
            rep.fail(clause, sig, {"cfg": e["cfg"], "obs": e["obs"]})
    distinct = {canon_hash(e["cfg"]) for e in episodes if nontrivial(e["cfg"])}
    cov = {
        "states": des["distinct"] + tot["distinct"],
        "transitions": des["states"] + tot["states"],
        "traces_validated_against_impl": len(episodes),
        "evaluations": len(episodes),
        "distinct_nontrivial": len(distinct),
        "rule": "every configuration of FVDesignMesh's bounded space (TLC exhaustive enumeration: class x "
                "constructor form x face sequences / (N,L) x angle unit); non-trivial = more than one cell on "
                "some axis or an offset origin; distinct by canonical hash of the configuration",
        "exhaustive": True,
        "per_grid_class": per_class,
        "design_model": {"module": "FVDesignMesh", "cfg": CFG[tier], "states": des["distinct"]},
        "trace_model": {"module": "FVTraceMesh", "tlc_runs": tot["runs"], "states": tot["distinct"]},
        "unliftable_values": sum(e["obs"].get("unliftable", 0) for e in episodes),
        "samples": [{"cfg": e["cfg"], "obs": e["obs"], "verdict": by_id[e["id"]]}
                    for e in (episodes[0], episodes[len(episodes) // 2], episodes[-1])],
    }
    return rep.finish(cov, assumptions=[
        "float outputs of the constructors are lifted to rationals with |x-p/q| <= 3e-14 max(1,|x|), q <= 3e4; coincidental lift probability 1.6e-5 per non-rational value",
        "pi enters cell volumes only as the overall factor pi^PiExp(class, angle unit) that the spec states",
        "trigonometric values only at Niven angles (multiples of pi/6, pi/3, pi/2) for SphericalGrid3D"])
