"""C14 value level: TLC-enumerated operator table executed on real CellVariables / FaceVariables.
Also probes, per request, the object-level clauses: new object, no shared storage / BC object,
operands byte-identical, result BCs = BCs of the left-most variable operand, ghost layer consistent."""
import contextlib
import copy
import io
import operator
import warnings

import drive
import lift
import tlcrun
from lifecycle import GRIDS, ALL_SIDES

PYOP = {"add": operator.add, "sub": operator.sub, "mul": operator.mul, "truediv": operator.truediv,
        "pow": operator.pow, "gt": operator.gt, "ge": operator.ge, "lt": operator.lt, "le": operator.le,
        "and": operator.and_, "or": operator.or_}
BASE = {"radd": "add", "rsub": "sub", "rmul": "mul", "rtruediv": "truediv", "rpow": "pow", "rand": "and", "ror": "or"}


def fr(q):
    return q[0] / q[1]


def uniform_value(arr):
    """observation of an elementwise result: the common value (lifted) or 'mixed'"""
    np = drive.np()
    a = np.asarray(arr, dtype=float).ravel()
    if a.size == 0:
        return None
    if not np.all(np.isfinite(a)):
        return [0, 0]
    if not np.all(a == a[0]):
        return "mixed"
    return lift.lift_enc(a[0])


def bc_bytes(np, bc):
    return b"|".join(np.asarray(getattr(getattr(bc, s), k)).tobytes() for s in ALL_SIDES for k in ("a", "b", "c")) + \
        bytes(bool(getattr(bc, s).periodic) for s in ALL_SIDES)


def run_request(P, np, m, req, target, probes):
    a, b, op, kind = fr(req["a"]), fr(req["b"]), req["op"], req["kind"]
    if target == "cell":
        bc1 = P.BoundaryConditions(m)
        first = [s for s in ALL_SIDES if getattr(bc1, s).a.size][0]
        side = getattr(bc1, first)
        side.a = 0.0; side.b = 1.0; side.c = 5.0
        v = P.CellVariable(m, a, bc1)
        mk_var = lambda val: P.CellVariable(m, val)
        other = mk_var(b) if kind == "var" else (np.full(tuple(m.dims), b) if kind == "array" else b)
        val_of = lambda r: r.value
    else:
        v = P.FaceVariable(m, a)
        other = P.FaceVariable(m, b) if kind == "var" else b
        if kind == "array":
            return None          # FaceVariable o ndarray is ill-defined in >= 2D (components differ in shape)
        val_of = lambda r: np.concatenate([np.asarray(x, dtype=float).ravel() for x in (r._xvalue, r._yvalue, r._zvalue)])
    snap_v = v._value.tobytes() if target == "cell" else val_of(v).tobytes()
    snap_bc = bc_bytes(np, v.BCs) if target == "cell" else b""
    snap_o = None
    if kind == "var":
        snap_o = other._value.tobytes() if target == "cell" else val_of(other).tobytes()
    elif kind == "array":
        snap_o = other.tobytes()
    try:
        if op == "eval":
            n = int(req["b"][0])
            mk = (lambda val: P.CellVariable(m, val)) if target == "cell" else (lambda val: P.FaceVariable(m, val))
            argv = [v] + [mk(a + k) for k in range(1, n)]
            fn = lambda *xs: sum((k + 1) * x for k, x in enumerate(xs))
            res = (P.celleval if n % 2 else P.funceval)(fn, *argv) if target == "cell" else P.faceeval(fn, *argv)
        elif op in BASE:
            res = PYOP[BASE[op]](other, v)
        elif op == "neg":
            res = -v
        elif op == "abs":
            res = abs(v)
        else:
            res = PYOP[op](v, other)
    except Exception as ex:      # noqa: BLE001
        return {"req": req, "obs": {"kind": "error", "q": [0, 0], "err": type(ex).__name__}}
    if type(res) is not type(v):
        return {"req": req, "obs": {"kind": "error", "q": [0, 0], "err": "result is " + type(res).__name__}}
    uv = uniform_value(val_of(res))
    if uv is None:
        return None
    out = {"req": req, "obs": {"kind": "mixed", "q": [0, 0], "err": ""} if uv == "mixed" else
           {"kind": "value", "q": uv, "err": ""}}
    # object-level probes
    def probe(name, ok):
        if not ok:
            probes.append({"clause": name, "op": op, "kind": kind, "target": target})
    now_v = v._value.tobytes() if target == "cell" else val_of(v).tobytes()
    probe("C14_OperandsKept", now_v == snap_v and (target != "cell" or bc_bytes(np, v.BCs) == snap_bc))
    if kind == "var":
        probe("C14_OperandsKept", (other._value.tobytes() if target == "cell" else val_of(other).tobytes()) == snap_o)
    elif kind == "array":
        probe("C14_OperandsKept", other.tobytes() == snap_o)
    if target == "cell":
        ops = [v] + ([other] if kind == "var" else [])
        probe("C14_Independent", all(res is not o and res.BCs is not o.BCs and
                                     not np.shares_memory(np.asarray(res._value), np.asarray(o._value)) for o in ops))
        shared_arrays = any(np.shares_memory(np.asarray(getattr(getattr(res.BCs, s), k)),
                                             np.asarray(getattr(getattr(o.BCs, s), k)))
                            for o in ops for s in ALL_SIDES for k in ("a", "b", "c") if getattr(getattr(o.BCs, s), k).size)
        probe("C14_Independent", not shared_arrays)
        probe("C14_ResultBCs", bc_bytes(np, res.BCs) == bc_bytes(np, v.BCs))
        from pyfvtool.boundary import cellValuesWithBoundaries
        with np.errstate(all="ignore"):
            g = cellValuesWithBoundaries(np.asarray(res.value), res.BCs)
        fin = np.isfinite(g)
        probe("C14_ResultBCs", bool(np.array_equal(np.asarray(res._value)[fin], g[fin])))
        # later modification of the result must not reach the operand, and vice versa
        c_before = np.asarray(getattr(v.BCs, first).c).copy()
        getattr(res.BCs, first).c = 99.0
        res.value = 123.0
        probe("C14_Independent", np.array_equal(np.asarray(getattr(v.BCs, first).c), c_before) and v._value.tobytes() == snap_v)
    else:
        for comp in ("_xvalue", "_yvalue", "_zvalue"):
            r_, v_ = np.asarray(getattr(res, comp)), np.asarray(getattr(v, comp))
            if r_.size:
                probe("C14_Independent", not np.shares_memory(r_, v_))
    return out


def value_level(rep, tier, seed):
    P, np = drive.pf(), drive.np()
    des = tlcrun.run_tlc("FVAlgebra.tla", "FVAlgebra.cfg", workers=4, timeout=600)
    if not des["ok"]:
        raise tlcrun.MachineryError("FVAlgebra failed:\n" + tlcrun.tlc_error_excerpt(des["out"]))
    reqs = [p["req"] for p in des["printed"]]
    if len(reqs) < 500:
        raise tlcrun.MachineryError("FVAlgebra produced too few requests")
    episodes, probes_all = [], []
    # quick: one grid of every dimension (the third component of a FaceVariable exists in 3D only)
    d1, d2, d3 = [0], [1, 3, 4], [2, 5, 6]
    grids = range(len(GRIDS)) if tier == "thorough" else [d1[0], d2[seed % 3], d3[seed % 3]]
    with warnings.catch_warnings(), np.errstate(all="ignore"), contextlib.redirect_stdout(io.StringIO()):
        warnings.simplefilter("ignore")
        for gi in grids:
            cls, _, mk = GRIDS[gi]
            m = mk(P, np)
            for target in ("cell", "face"):
                probes, results = [], []
                for rq in reqs:
                    r = run_request(P, np, m, rq, target, probes)
                    if r is not None:
                        results.append(r)
                episodes.append({"id": len(episodes), "grid_class": cls, "target": target, "results": results})
                for pr in probes:
                    pr["grid_class"] = cls
                probes_all += probes
    verdicts, tot = tlcrun.run_chunks("FVAlgebraTrace.tla", "FVAlgebraTrace.cfg", episodes, "ep", chunk=1)
    by = {v["ep"]: v for v in verdicts}
    nfail = 0
    for e in episodes:
        v = by[e["id"]]
        if v["count"]:
            nfail += v["count"]
            seen = set()
            for j in range(1, len(e["results"]) + 1):
                pass
            for j in v["first"]:
                r = e["results"][j - 1]
                key = (r["req"]["op"], r["req"]["kind"])
                if key in seen:
                    continue
                seen.add(key)
                o = r["obs"]
                rep.fail("C14_Elementwise", {"op": r["req"]["op"], "kind": r["req"]["kind"], "target": e["target"],
                                             "observed": ("error:" + o["err"]) if o["kind"] == "error" else o["kind"]},
                         {"grid_class": e["grid_class"], "request": r["req"], "observed": o})
    seenp = set()
    for pr in probes_all:
        key = (pr["clause"], pr["op"], pr["kind"], pr["target"])
        if key in seenp:
            continue
        seenp.add(key)
        rep.fail(pr["clause"], {"op": pr["op"], "kind": pr["kind"], "target": pr["target"]}, pr)
    return {"states": des["distinct"] + tot["distinct"], "transitions": des["states"] + tot["states"],
            "episodes": len(episodes), "evaluations": sum(len(e["results"]) for e in episodes),
            "distinct": len(reqs), "requests": len(reqs), "value_failures": nfail, "probe_failures": len(probes_all)}
