"""C17 - results do not depend on the unit system; terms are linear in their coefficient fields."""
import opscheck
import scaledrive

SCALED = ["C17_Mdiff", "C17_Mconv", "C17_Mup", "C17_Mupalt", "C17_Msrc", "C17_Rsrc", "C17_Mbc", "C17_Rbc",
          "C17_ghost", "C17_divu", "C17_volume", "C17_linmean", "C17_upmean", "C17_grad", "C17_tvd"]
LINEAR = ["C17_LinearDiff", "C17_LinearConv", "C17_LinearUp", "C17_LinearSrc", "C17_LinearTvd"]
for c in SCALED + LINEAR + ["C17_solution", "C17_Decades"]:
    opscheck.NEEDS[c] = []


def observe(cfg, want):
    return scaledrive.observe(cfg, want)


def clauses_for(cfg):
    return SCALED + LINEAR + ["C17_solution", "C17_Decades"]


def run(tier, seed):
    def make(configs, clauses, extra, observe=None):
        return None
    return opscheck.run_property(
        "C17", tier, seed, design=opscheck.design_ops("C17", None), clauses_for=clauses_for, n_quick=10, n_thorough=100,
        gen_kw=[{}, {"nmax": 2}], generator=scaledrive.gen, observe=scaledrive.observe,
        rule="9 grid classes x seeded configurations x (L,T,K) drawn from {1/10,1/2,2,3,10}^3: every builder output, the "
             "ghost values, the cell volumes and the solvePDE result (inverse formulation) of the rescaled configuration "
             "are compared entry by entry with the original ones times L^l T^t K^k (dimension table in FVProperties); "
             "plus additivity/homogeneity of each matrix builder in its coefficient field")
