"""TVD-term part of C13: totality on all small integer fields, and agreement with the reference."""
import itertools
import random

import drive
import opscheck
import opsdrive
import tlcrun
from opsdrive import enc

CLAUSES = ["C13_TvdFinite", "C13_TvdInterior", "C13_TvdFormula"]


def exhaustive_fields(seed, tier):
    """every field in {-1,0,1,2}^cells on small grids x sign patterns; all 16 limiters each.
    Successive differences hit r in {0, +-1, +-2, +-3, +-1/2, +-1/3, 'infinite'} exactly."""
    rng = random.Random(seed)
    cfgs = []
    shapes = [("Grid1D", [2]), ("CylindricalGrid1D", [3]), ("SphericalGrid1D", [2])]
    if tier == "thorough":
        shapes += [("Grid1D", [3]), ("Grid2D", [1, 2]), ("PolarGrid2D", [2, 1])]
    for cls, dims in shapes:
        base = opsdrive.gen_config(rng, cls, nmax=3, uniform=True, nmin=1, nlim=16)
        faces = [[enc(k) for k in range(n + 1)] for n in dims]
        full = [n + 2 for n in dims]
        ncell = 1
        for n in full:
            ncell *= n
        allf = list(itertools.product([-1, 0, 1, 2], repeat=ncell))
        take = allf if len(allf) <= (300 if tier == "quick" else 5000) else rng.sample(allf, 300 if tier == "quick" else 5000)
        for vals in take:
            it = iter(vals)
            cfg = dict(base)
            cfg["faces"] = faces
            for key, vset in (("u", [1]), ("uup", [1])):
                sg = rng.choice([1, -1])
                cfg[key] = [opsdrive.nested(opsdrive.face_shape(dims, a), lambda ix: enc(sg)) for a in range(len(dims))]
            cfg["u"] = cfg["uup"]
            cfg["phi"] = opsdrive.nested(full, lambda ix: enc(next(it)))
            cfg["limiters"] = rng.sample(opsdrive.LIMITERS, 4 if tier == "quick" else 16)
            cfg["bc"] = {k: v for k, v in base["bc"].items()}
            cfgs.append(cfg)
    return cfgs


def c13_part(rep, tier, seed):
    configs = opscheck.gen_configs(seed * 77 + 5, 2 if tier == "quick" else 12, nlim=5 if tier == "quick" else 16)
    configs += opsdrive.systematic_configs() + opsdrive.large_configs(nlim=5 if tier == "quick" else 16)
    configs += exhaustive_fields(seed, tier)
    # boundary-condition arrays of `base` belong to another mesh shape: the TVD term ignores BCs, so
    # replace them by defaults of the right shape
    for cfg in configs:
        dims = opsdrive.dims_of(cfg)
        d = len(dims)
        for a in range(d):
            for s in opsdrive.SIDES[a]:
                shp = opsdrive.trans_shape(dims, a)
                cfg["bc"][s] = {"a": opsdrive.nested(shp, lambda ix: enc(1)), "b": opsdrive.nested(shp, lambda ix: enc(0)),
                                "c": opsdrive.nested(shp, lambda ix: enc(0)), "periodic": False, "kind": "neumann"}
    episodes = opscheck.make_episodes(configs, lambda cfg: CLAUSES)
    by_id, tot = opscheck.validate(episodes, chunk=60)
    nf = 0
    und = 0
    for e in episodes:
        v = by_id[e["id"]]
        if v["failing"] and opscheck.outputs_with_unknown(e["obs"]):
            und += len(v["failing"])
            v["failing"] = []
        for cl in v["failing"]:
            nf += 1
            rep.fail(cl, {"grid_class": e["cfg"]["cls"], "limiters": ",".join(sorted(e["cfg"]["limiters"]))[:60]},
                     {"cfg": {k: e["cfg"][k] for k in ("cls", "faces", "u", "uup", "phi", "limiters")},
                      "tvd": e["obs"].get("tvdnamed")})
    return {"episodes": len(episodes), "states": tot["distinct"], "transitions": tot["states"],
            "evaluations": sum(len(e["cfg"]["limiters"]) for e in episodes), "failing": nf,
            "undecided_unliftable": und}
