"""Extended coverage: behaviour behind the listed properties that the specification also describes
(location variables, boundary-corrected gradient, FaceVariable constructor forms, boundary utility
methods, domain integral).  Not a listed property: deviations are reported in evidence/extended.json
and on stderr, never as a VIOLATION of a listed property."""
import json
import os
import sys

import opscheck
from findings import EVIDENCE_DIR

CLAUSES = ["X_CellLocations", "X_FaceLocations", "X_GradFixedBC", "X_FaceCtorScalar", "X_FaceCtorTuple",
           "X_Utility", "X_Integral", "X_MeshIndex", "X_BuilderForms"]


def run(tier, seed):
    configs = opscheck.gen_configs(seed * 31 + 7, 3 if tier == "quick" else 20)
    eps = opscheck.make_episodes(configs, lambda cfg: CLAUSES)
    by, tot = opscheck.validate(eps, chunk=20)
    dev = {}
    for e in eps:
        for cl in by[e["id"]]["failing"]:
            key = f"{cl}:{e['cfg']['cls']}"
            dev[key] = dev.get(key, 0) + 1
    os.makedirs(EVIDENCE_DIR, exist_ok=True)
    with open(os.path.join(EVIDENCE_DIR, "extended.json"), "w") as fh:
        json.dump({"episodes": len(eps), "clauses": CLAUSES, "deviations": dev, "tlc_states": tot["distinct"]}, fh, indent=1)
    for k, n in sorted(dev.items()):
        print(f"extended-coverage deviation (not a listed property): {k} x{n}", file=sys.stderr)
    print(f"extended coverage: {len(eps)} episodes, {len(dev)} deviating (clause, class) pairs")
    return 0
