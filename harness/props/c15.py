"""C15 - assembly is pure and deterministic: builders never modify their inputs.

FVLifecycle gives every Build / SolveMatrix / SolveExplicit action the frame condition UNCHANGED
on all inputs; behaviours of a builder-heavy configuration are replayed into real objects and
the frame condition is observed by byte snapshots (every array reachable from mesh, variables,
BC objects, cached terms), each builder is called twice (bit-identical results) and returned
buffers are tested for aliasing with mesh storage and with the input variable.
"""
import lifecycle
import tlcrun
from findings import Report, canon_hash
from props.c09 import report_failures


def run(tier, seed):
    rep = Report("C15", tier, seed)
    num, depth = (80, 25) if tier == "quick" else (800, 40)
    behs, sim = lifecycle.simulate("FVLifecycle_build.cfg", num, depth, seed + 15)
    judge = lifecycle.Judge()
    for k, b in enumerate(behs):
        lifecycle.replay(b, k + seed, judge)
    nbuild = judge.actions.get("Build", 0)
    if nbuild < 20:
        raise tlcrun.MachineryError("vacuity: fewer than 20 builder calls replayed")
    report_failures(rep, judge, ("C15_",))
    cov = {
        "states": sim["states"], "transitions": sim["states"],
        "traces_validated_against_impl": len(behs), "evaluations": judge.steps,
        "distinct_nontrivial": len({canon_hash([[r["name"], r["args"]] for r in b]) for b in behs if len(b) > 3}),
        "rule": "TLC -simulate behaviours of FVLifecycle (15 builder kinds, solvers, edits, copies, operators) replayed "
                "on 7 grid classes; every action is followed by a byte comparison of everything it must not touch; "
                "distinct by action sequence",
        "exhaustive": False, "replayed_actions": judge.actions, "builder_calls": nbuild,
        "samples": [[[r["name"], r["args"]] for r in behs[0][:12]]],
    }
    return rep.finish(cov, assumptions=["byte snapshots cover mesh arrays, value arrays, BC coefficient arrays and flags, cached CSR data"])
