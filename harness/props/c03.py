"""C03 - reported boundary values satisfy the configured boundary conditions."""
import opscheck
import opsdrive

BASE = ["C03_Robin", "C03_Periodic", "C03_InteriorKept", "C03_RowsSatisfied", "C03_RowsEncodeRobin",
        "C03_RowsOnGhostOnly", "C03_ScaleInvariant",
        "C03_CtorForms", "C03_RobinCtor", "C03_RobinApply", "C03_RobinSolve", "C03_RobinExplicit",
        "C03_PeriodicCtor", "C03_PeriodicApply", "C03_PeriodicSolve", "C03_PeriodicExplicit",
        "C03_InteriorKeptCtor", "C03_SolveRowsSatisfied", "C03_PlotProfile"]


def run(tier, seed):
    return opscheck.run_property(
        "C03", tier, seed, design=opscheck.design_ops("C03", None), clauses_for=lambda cfg: BASE,
        extra_configs=opsdrive.periodic_systematic_configs(False) + opsdrive.large_configs(), n_quick=16, n_thorough=160,
        gen_kw=[{}, {"nmax": 2}, {"kinds": ["robin"]}, {"kinds": ["dirichlet", "neumann"]}],
        extra_conform=["ghost", "Mbc", "Rbc"],
        rule="9 grid classes x per-side kinds {Dirichlet, Neumann, Robin with face-wise varying a,b,c, periodic on "
             "non-radial axes} in seeded combinations x the four operations that compute ghost values (construction, "
             "apply_BCs, solvePDE, solveExplicitPDE) plus the solver's boundary rows and plotprofile")
