"""C04 - solvePDE solves exactly the system its term list and BCs define, in place."""
import opscheck
import solvedrive

CLAUSES = ["C04_Solves", "C04_SameObject", "C04_SameAsMatrixPDE", "C04_ExternalSolver", "C04_Variants",
           "C04_Linear", "C04_Assembly", "C03_SolvedRobin",
           # the variable's boundary equations are those of the BCs as they are AT THE TIME OF THE SOLVE: a second
           # solve after the boundary data were re-assigned (property / slice assignment) returns the new target
           "C12_History", "C12_Retry"]


def run(tier, seed):
    return opscheck.run_property(
        "C04", tier, seed, design=opscheck.design_ops("C04", None), clauses_for=lambda cfg: CLAUSES,
        extra_configs=solvedrive.periodic_systematic(), n_quick=16, n_thorough=160,
        gen_kw=[{}, {"nmax": 2}], generator=solvedrive.gen_solve_config, observe=solvedrive.observe,
        rule="inverse formulation: for 9 grid classes x seeded spacings, coefficient fields, BC kinds (incl. periodic) "
             "and term sets {transient, -diffusion, central|upwind, linear source, constant source}, the target x* is "
             "fixed, the data derived from it, and the real solvePDE / solveMatrixPDE / external-solver / re-ordered, "
             "split, negated, paired term lists / superposed data must all return x* exactly (lifted)")
