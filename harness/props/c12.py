"""C12 - time stepping: steady states are fixed points; explicit step; (limits: supporting only)."""
import opscheck
import solvedrive

CLAUSES = ["C12_Residual", "C12_History", "C12_HistoryPeriodic", "C12_HistoryAlpha", "C12_Retry", "C12_Limits", "C12_FixedPoint", "C12_ExplicitStep", "C12_ExplicitBCs", "C12_InputUntouched",
           "C12_ExplicitUsable"]


def run(tier, seed):
    return opscheck.run_property(
        "C12", tier, seed, clauses_for=lambda cfg: CLAUSES, n_quick=16, n_thorough=160,
        gen_kw=[{}, {"nmax": 2}], generator=solvedrive.gen_solve_config, observe=solvedrive.observe,
        rule="9 grid classes x seeded spatial term sets, BC kinds, alpha scalar or per cell, dt in {1/10,1,10,1000}: "
             "the backward-Euler residual alpha(new-old)/dt + A new = gamma is evaluated by TLC on the lifted solvePDE "
             "result and the lifted code matrices; a steady solution is started from itself; an explicit step is "
             "compared with old + dt*RHS, its boundary values with the BCs, its input with a byte snapshot, and the "
             "returned variable is handed to solvePDE")
