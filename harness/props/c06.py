"""C06 - uniform fields stay uniform: constants are diffusion-free and advect as c*div(u)."""
import opscheck

CLAUSES = ["C06_DiffConst", "C06_CentralConst", "C06_UpwindConst", "C06_UpwindAltConst",
           "C06_SourceDiag", "C06_SourceVec", "C06_TvdConst"]


def run(tier, seed):
    return opscheck.run_property(
        "C06", tier, seed, clauses_for=lambda cfg: CLAUSES, n_quick=6, n_thorough=60,
        gen_kw=[{}, {"nmax": 2}], extra_conform=[],
        rule="9 grid classes x seeded spacings / D fields / velocity sign patterns; row sums of every advection-"
             "diffusion matrix against the code's own divergence of u; source terms entrywise")
