"""C06 - uniform fields stay uniform: constants are diffusion-free and advect as c*div(u)."""
import opscheck
import opsdrive

CLAUSES = ["C06_DiffConst", "C06_CentralConst", "C06_UpwindConst", "C06_UpwindAltConst",
           "C06_SourceDiag", "C06_SourceVec", "C06_SourceForms", "C06_SourceSolve", "C06_TvdConst"]


opscheck.NEEDS["C06_Steady"] = []


def run(tier, seed):
    import maxdrive
    steady = dict(clauses_for=lambda cfg: ["C06_Steady"], n_quick=4, n_thorough=40, gen_kw=[{}],
                  generator=maxdrive.gen, observe=maxdrive.observe)
    return opscheck.run_property(
        "C06", tier, seed, design=opscheck.design_ops("C06", None), clauses_for=lambda cfg: CLAUSES, extra_configs=opsdrive.systematic_configs() + opsdrive.large_configs(), n_quick=18, n_thorough=150,
        gen_kw=[{}, {"nmax": 2}], extra_conform=[], parts=[steady],
        rule="9 grid classes x seeded spacings / D fields / velocity sign patterns; row sums of every advection-"
             "diffusion matrix against the code's own divergence of u; source terms entrywise")
