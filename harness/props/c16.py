"""C16 - unsupported requests fail loudly with the documented error, valid ones never do.

FVContract (TLA+) is the request -> response machine; TLC enumerates its complete request
space and prints (request, expected outcome).  Every request is executed against the real API
(spec -> code, one implementation test per transition); the recorded (request, observed
outcome) events are validated against the spec by FVTraceContract (code -> spec).
"""
import contextlib
import io
import math
import warnings

import drive
import tlcrun
from findings import Report, canon_hash


def _faces(cls, a, n):
    """n+1 increasing face positions for axis a (non-uniform, inside the angular ranges)"""
    np = drive.np()
    if drive.is_angular(cls, a):
        hi = 3.0 if drive.AXIS_LABELS[cls][a] == "theta" else 6.0
        base = np.array([0.0] + [hi * (k + 1) ** 1.5 / (n ** 1.5) for k in range(n)])
        return base
    return np.cumsum(np.array([0.0] + [1.0 + (k % 2) for k in range(n)]))


def mesh_faces(cls, N):
    C = getattr(drive.pf(), cls)
    return C(*[_faces(cls, a, int(N[a])) for a in range(drive.dim(cls))])


def mesh_nl(cls, N):
    C = getattr(drive.pf(), cls)
    L = [(3.0 if drive.AXIS_LABELS[cls][a] == "theta" else 6.0) if drive.is_angular(cls, a) else 2.0
         for a in range(drive.dim(cls))]
    return C(*([int(x) for x in N] + L))


def _std_mesh(cls):
    return mesh_faces(cls, [2] * drive.dim(cls))


def _terms(m):
    P = drive.pf()
    one = P.CellVariable(m, 1.0)
    D = P.FaceVariable(m, 1.0)
    return P, one, D


def execute(req):
    """perform the request on the real API; returns 'ok' or the exception type name"""
    P, np = drive.pf(), drive.np()
    k = req["kind"]
    try:
        with warnings.catch_warnings(), contextlib.redirect_stdout(io.StringIO()):
            warnings.simplefilter("ignore")
            if k == "label_get":
                getattr(getattr(_std_mesh(req["cls"]), req["prop"]), req["label"])
            elif k == "comp_get":
                getattr(P.FaceVariable(_std_mesh(req["cls"]), 1.0), req["comp"])
            elif k == "comp_set":
                f = P.FaceVariable(_std_mesh(req["cls"]), 1.0)
                setattr(f, req["comp"], np.zeros_like(f._xvalue))
            elif k == "ctor":
                C = getattr(P, req["cls"])
                n = req["arity"]
                if req["argkind"] == "arrays":
                    args = [np.array([0.0, 1.0, 2.0]) for _ in range(n)]
                else:
                    args = [2] * ((n + 1) // 2) + [1.0] * (n // 2)
                C(*args)
            elif k == "ctor_valid":
                m = mesh_faces(req["cls"], req["N"]) if req["form"] == "faces" else mesh_nl(req["cls"], req["N"])
                if [int(x) for x in m.dims] != [int(x) for x in req["N"]]:
                    return "WrongDims"
            elif k == "init_shape":
                m = mesh_nl(req["cls"], req["N"])
                n = [int(x) for x in req["N"]]
                fam = req["family"]
                shp = {"dims": n, "dims+2": [x + 2 for x in n], "dims+1": [x + 1 for x in n],
                       "transposed": n[::-1], "toolong": [n[0] + 3] + n[1:], "rank+1": n + [2],
                       "rank-1": n[:-1], "flat": [7], "ghost_transposed": [x + 2 for x in n][::-1],
                       "ghost_flat": [int(np.prod([x + 2 for x in n]))],
                       "ghost_regrouped": ([int(np.prod([x + 2 for x in n])), 1] if len(n) == 1 else
                                           [(n[0] + 2) * (n[1] + 2)] + [x + 2 for x in n[2:]] + [1])}.get(fam)
                if fam == "scalar":
                    val = 2.0
                elif fam == "size1":
                    val = np.array([2.0])
                else:
                    val = np.arange(int(np.prod(shp)), dtype=float).reshape(shp) + 1.0
                v = P.CellVariable(m, val)
                if list(v.value.shape) != n:
                    return "WrongShape"
            elif k == "periodic":
                m = _std_mesh(req["cls"])
                bc = P.BoundaryConditions(m)
                via = req["via"]
                pre = not via.endswith("_noprecalc")
                if via in ("ctor", "bcterm", "ctor_noprecalc"):
                    for s in req["sides"]:
                        getattr(bc, s).periodic = True
                    if via == "bcterm":
                        P.boundaryConditionsTerm(bc)
                    else:
                        P.CellVariable(m, 1.0, bc, BCsTerm_precalc=pre)
                else:
                    v = P.CellVariable(m, 1.0, bc, BCsTerm_precalc=pre)
                    for s in req["sides"]:
                        getattr(bc, s).periodic = True
                    if via.startswith("apply"):
                        v.apply_BCs()
                    elif via.startswith("explicit"):
                        P.solveExplicitPDE(v, 0.1, np.zeros(v._value.size))
                    else:
                        P.solvePDE(v, [P.linearSourceTerm(P.CellVariable(m, 1.0)),
                                       P.constantSourceTerm(P.CellVariable(m, 2.0))])
            elif k == "bc_coeff":
                from pyfvtool.boundary import BoundaryFace
                mk = {"ndarray": lambda: np.array([1.0]), "float": lambda: 1.0, "list": lambda: [1.0],
                      "none": lambda: None, "int": lambda: 1}
                BoundaryFace(mk[req["a"]](), mk[req["b"]](), mk[req["c"]]())
            elif k == "term":
                m = _std_mesh(req["cls"])
                P, one, D = _terms(m)
                v = P.CellVariable(m, 1.0)
                M = P.diffusionTerm(D)
                RHS = P.constantSourceTerm(one)
                t = {"matrix": lambda: -M, "vector": lambda: RHS, "pair": lambda: P.transientTerm(v, 1.0, 1.0),
                     "negmatrix": lambda: -(-M), "negvector": lambda: -RHS,
                     "array0d": lambda: np.zeros(()), "array3d": lambda: np.zeros((2, 2, 2)),
                     "swappedpair": lambda: (RHS, M), "pair3d": lambda: (M, np.zeros((2, 2, 2))),
                     "float": lambda: 1.0, "none": lambda: None, "list": lambda: [M, RHS],
                     "string": lambda: "x"}[req["term"]]()
                P.solvePDE(v, [P.linearSourceTerm(one), t])
            elif k == "smoke":
                smoke(req["cls"], req["N"])
            else:
                return "UnknownRequest"
        return "ok"
    except Exception as ex:            # noqa: BLE001 - the outcome class is the observation
        return type(ex).__name__


def smoke(cls, N):
    """every documented builder on a mesh with N cells per axis (valid use never fails)"""
    P, np = drive.pf(), drive.np()
    for m in (mesh_faces(cls, N), mesh_nl(cls, N)):
        bc = P.BoundaryConditions(m)
        bc.left.a = 0.0; bc.left.b = 1.0; bc.left.c = 1.0
        v = P.CellVariable(m, 1.0, bc)
        w = P.CellVariable(m, np.ones(m.dims) * 2.0)
        D = P.FaceVariable(m, 1.0)
        u = P.FaceVariable(m, 0.5)
        FL = P.fluxLimiter("SUPERBEE")
        for f in (P.linearMean, P.arithmeticMean, P.geometricMean, P.harmonicMean):
            f(w)
        P.upwindMean(w, u)
        P.divergenceTerm(P.gradientTerm(w))
        P.gradientTermFixedBC(w)
        P.cellLocations(m); P.faceLocations(m)
        terms = [P.transientTerm(v, 0.1, 1.0), -P.diffusionTerm(D), P.convectionUpwindTerm(u),
                 P.linearSourceTerm(w), P.constantSourceTerm(w)]
        P.convectionTerm(u)
        rhs = P.convectionTVDupwindRHSTerm(u, v, FL)
        P.solvePDE(v, terms + [rhs])
        P.solveExplicitPDE(v, 0.01, P.divergenceTerm(D * P.gradientTerm(v)))
        Mbc, Rbc = P.boundaryConditionsTerm(bc)
        P.solveMatrixPDE(m, Mbc + P.linearSourceTerm(w), Rbc + P.constantSourceTerm(w))
        v.plotprofile(); v.domainIntegral(); v.copy()
        if not np.all(np.isfinite(v.value)):
            raise FloatingPointError("non-finite solution")


SIG_KEYS = {"label_get": ["cls", "prop", "label"], "comp_get": ["cls", "comp"], "comp_set": ["cls", "comp"],
            "ctor": ["cls", "arity"], "ctor_valid": ["cls", "form"], "init_shape": ["cls", "family"],
            "periodic": ["cls", "via"], "bc_coeff": [], "term": ["term"], "smoke": ["cls"]}


def run(tier, seed):
    rep = Report("C16", tier, seed)
    des = tlcrun.run_tlc("FVContract.tla", "FVContract.cfg", workers=4, timeout=600)
    if not des["ok"]:
        raise tlcrun.MachineryError("FVContract failed:\n" + tlcrun.tlc_error_excerpt(des["out"]))
    pairs = des["printed"]
    if len(pairs) < 1000:
        raise tlcrun.MachineryError("FVContract produced too few requests")
    events = []
    kinds = {}
    mism = 0
    for k, p in enumerate(pairs):
        out = execute(p["req"])
        events.append({"id": k, "req": p["req"], "outcome": out})
        kinds[p["req"]["kind"]] = kinds.get(p["req"]["kind"], 0) + 1
        mism += out != p["expected"]
    verdicts, tot = tlcrun.run_chunks("FVTraceContract.tla", "FVTraceContract.cfg", events, "ep", chunk=400)
    by_id = {v["ep"]: v for v in verdicts}
    nfail = 0
    for e in events:
        v = by_id[e["id"]]
        for clause in v["failing"]:
            if clause == "unknown_request":
                raise tlcrun.MachineryError(f"trace spec does not know request {e['req']}")
            nfail += 1
            r = e["req"]
            sig = {kk: r[kk] for kk in SIG_KEYS[r["kind"]]}
            sig["observed"] = e["outcome"]
            sig["expected"] = v["expected"]
            rep.fail(clause, sig, {"request": r, "observed": e["outcome"], "expected": v["expected"]})
    if nfail != mism:     # the two directions must agree on which requests deviate
        raise tlcrun.MachineryError(f"spec->code found {mism} deviations, code->spec {nfail}")
    cov = {
        "states": des["distinct"] + tot["distinct"], "transitions": des["states"] + tot["states"],
        "traces_validated_against_impl": len(events), "evaluations": len(events),
        "distinct_nontrivial": len({canon_hash(e["req"]) for e in events}),
        "rule": "complete request space of FVContract (TLC exhaustive): labels x classes x get/set, constructor "
                "arities 0..7 x argument kinds, initial-value shape families x N in {1,2,3}^dim, periodic side "
                "subsets x 4 trigger paths, BC coefficient types, equation-term kinds, smoke runs per class and N; "
                "every request is distinct and exercises one accept/reject decision",
        "exhaustive": True, "per_kind": kinds,
        "samples": [events[0], events[len(events) // 3], events[-1]],
    }
    return rep.finish(cov, assumptions=[
        "outcome class = exception type name or 'ok'; messages are not compared",
        "six-argument internal constructor form of 1D/2D classes is not judged (DESIGN 4)"])
