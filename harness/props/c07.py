"""C07 - discrete maximum principle: no overshoot, no negative concentrations."""
import maxdrive
import opscheck
import tlcrun

CLAUSES = ["C07_Premise", "C07_SignStructure", "C07_Hull"]
for c in CLAUSES:
    opscheck.NEEDS[c] = []


def run(tier, seed):
    return opscheck.run_property(
        "C07", tier, seed, design=opscheck.design_ops("C07", None), clauses_for=lambda cfg: CLAUSES, n_quick=24, n_thorough=200,
        gen_kw=[{}, {"nmax": 2}], generator=maxdrive.gen, observe=maxdrive.observe,
        rule="9 grid classes x seeded spacings x D in {0,1,3,1000} per face x exactly divergence-free velocity fields "
             "(uniform Cartesian, q/r, q/r^2, discrete stream functions with integer node values, zero wall-normal "
             "velocity) x beta >= 0 x BC kind per side in {Dirichlet, no-flux, periodic}: TLC checks the M-matrix sign "
             "structure on the lifted matrices (exact) and the observed min/max of 3 implicit steps for dt over 8 "
             "decades against the hull of previous values and Dirichlet data (fixed point)")
