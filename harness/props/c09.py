"""C09 - no stale state: any edit history followed by a solve equals a fresh start.

1. TLC checks FVLifecycle exhaustively (small constants, all histories to a depth) for the C09 /
   C14 invariants; the full freshness invariant is expected to fail only through a *shared* BC
   object (known finding) - the counterexample TLC produces is checked to be of that kind.
2. TLC -simulate behaviours over the full alphabet are replayed into real objects on seven grid
   classes; every solve is compared bit-for-bit with a fresh-start solve (harness/lifecycle.py).
"""
import re

import drive
import lifecycle
import tlcrun
from findings import Report, canon_hash

CLAUSES = ("C09_",)


def model_check(tier):
    depth = "6" if tier == "quick" else "8"
    cfg = open(tlcrun.SPEC + "/FVLifecycle_c09.cfg").read()
    cfg = re.sub(r"MaxDepth = \d+", f"MaxDepth = {depth}", cfg)
    path = tlcrun.fresh("lifecycle.cfg")
    open(path, "w").write(cfg)
    res = tlcrun.run_tlc("FVLifecycle.tla", path, workers=16, timeout=3000, heap="8g")
    if not res["ok"]:
        raise tlcrun.MachineryError("FVLifecycle (C09 alphabet) failed:\n" + tlcrun.tlc_error_excerpt(res["out"]))
    # the unrestricted invariant: a counterexample must exist and must go through a shared BC object
    shared = tlcrun.run_tlc("FVLifecycle.tla", "FVLifecycle_c09_shared.cfg", workers=4, timeout=1200, heap="4g")
    trace = re.findall(r'last = \[name \|-> "(\w+)", args \|-> <<([^>]*)>>\]', shared["out"])
    return res, shared, trace


def report_failures(rep, judge, prefixes):
    for clause, sig, wit in judge.fail:
        if clause.startswith(prefixes):
            rep.fail(clause, sig, wit)
    for k, n in judge.nonconf.items():
        rep.nonconforming[k] = rep.nonconforming.get(k, 0) + n


def run(tier, seed):
    rep = Report("C09", tier, seed)
    res, shared, trace = model_check(tier)
    if "C09_FreshAtUse is violated" in shared["out"]:
        names = [t[0] for t in trace]
        # the counterexample is the known finding only if two variables refer to one BC object
        if not ({"NewVar", "SolveExplicit"} & set(names)):
            rep.fail("C09_FreshAtUse", {"model": "FVLifecycle", "via": "unshared"}, {"trace": trace})
        else:
            # bind the counterexample to the code: replay it into real objects on every grid class
            cex = []
            for nm, raw in trace:
                if nm == "Init":
                    continue
                args = [a.strip().strip('"') for a in raw.split(",")] if raw.strip() else []
                args = [True if a == "TRUE" else False if a == "FALSE" else a for a in args]
                cex.append({"level": len(cex) + 2, "name": nm, "args": args, "vars": {}, "bcs": {},
                            "use": {"var": -1, "cache": 1, "bc": 1, "exists": True}})
            cex[-1]["use"] = {"var": cex[-1]["args"][0], "cache": 0, "bc": 1, "exists": True}
            jc = lifecycle.Judge()
            for gi in range(len(lifecycle.GRIDS)):
                lifecycle.replay(cex, gi, jc)
            report_failures(rep, jc, ("C09_",))
            if not any(c == "C09_FreshSolve" for c, _, _ in jc.fail):
                rep.nonconform("FVLifecycle predicts a stale solve through a shared BC object; the code solved fresh")
    num, depth = (60, 25) if tier == "quick" else (600, 40)
    behs, sim = lifecycle.simulate("FVLifecycle_sim.cfg", num, depth, seed + 1)
    judge = lifecycle.Judge()
    for k, b in enumerate(behs):
        lifecycle.replay(b, k + seed, judge)
    if judge.solves == 0:
        raise tlcrun.MachineryError("vacuity: no SolvePDE step was replayed")
    report_failures(rep, judge, ("C09_",))
    cov = {
        "states": res["distinct"] + sim["states"], "transitions": res["states"] + sim["states"],
        "traces_validated_against_impl": len(behs), "evaluations": judge.steps,
        "distinct_nontrivial": len({canon_hash([[r["name"], r["args"]] for r in b]) for b in behs if len(b) > 3}),
        "rule": "exhaustive: FVLifecycle with 3 variables, 3 BC objects, all histories to the depth of the tier over the "
                "C09 alphabet (sharing allowed); simulated: behaviours over the full alphabet replayed step by step "
                "into real objects on 7 grid classes; non-trivial = more than 3 actions; distinct by action sequence",
        "exhaustive": False,
        "model_checking": {"distinct_states": res["distinct"], "states_generated": res["states"],
                           "invariants": ["TypeOK", "C09_CacheExists", "C09_FreshAtUseUnshared", "C09_FreshAfter",
                                          "C09_ExplicitUsable", "C14_Independent", "C09_CleanMeansFresh"],
                           "shared_bc_counterexample": [t[0] for t in trace]},
        "replayed_actions": judge.actions, "solves_compared_with_fresh_start": judge.solves,
        "solves_where_spec_expects_stale": judge.stale_expected,
        "samples": [[[r["name"], r["args"]] for r in behs[0][:12]]],
    }
    return rep.finish(cov, assumptions=[
        "semantic observation of freshness: the cached term / ghost layer is recomputed and compared with what the object holds",
        "manual flag resets (x.modified = ...) are outside C09's alphabet"])
