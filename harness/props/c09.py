"""C09 - no stale state: any edit history followed by a solve equals a fresh start.

1. TLC checks FVLifecycle exhaustively (small constants, all histories to a depth) for the C09 /
   C14 invariants; the full freshness invariant is expected to fail only through a *shared* BC
   object (known finding) - the counterexample TLC produces is checked to be of that kind.
2. TLC -simulate behaviours over the full alphabet are replayed into real objects on seven grid
   classes; every solve is compared bit-for-bit with a fresh-start solve (harness/lifecycle.py).
"""
import re

import os

import drive
import lifecycle
import record
import tlcrun
from findings import Report, canon_hash

CLAUSES = ("C09_",)


def model_check(tier):
    depth = "6" if tier == "quick" else "8"
    cfg = open(tlcrun.SPEC + "/FVLifecycle_c09.cfg").read()
    cfg = re.sub(r"MaxDepth = \d+", f"MaxDepth = {depth}", cfg)
    path = tlcrun.fresh("lifecycle.cfg")
    open(path, "w").write(cfg)
    res = tlcrun.run_tlc("FVLifecycleMC.tla", path, workers=16, timeout=3000, heap="8g")
    if not res["ok"]:
        raise tlcrun.MachineryError("FVLifecycle (C09 alphabet) failed:\n" + tlcrun.tlc_error_excerpt(res["out"]))
    # the unrestricted invariant: a counterexample must exist and must go through a shared BC object
    shared = tlcrun.run_tlc("FVLifecycleMC.tla", "FVLifecycle_c09_shared.cfg", workers=4, timeout=1200, heap="4g")
    trace = re.findall(r'last = \[name \|-> "(\w+)", args \|-> <<([^>]*)>>\]', shared["out"])
    return res, shared, trace


def report_failures(rep, judge, prefixes):
    for clause, sig, wit in judge.fail:
        if clause.startswith(prefixes):
            rep.fail(clause, sig, wit)
    for k, n in judge.nonconf.items():
        rep.nonconforming[k] = rep.nonconforming.get(k, 0) + n


# repository tests whose public calls are recorded and validated (the first QUICK_TESTS in the quick tier); with the
# recorder's slot recycling (Drop events) whole test runs are validated with pools of at most 40 objects
REPO_TESTS = ["test_TrackedArray.py", "test_BC_utility_methods.py", "test_CellVariable_copy.py",
              "test_CellVariable_methods.py", "test_BC.py", "test_README_script.py", "test_benchmark_1d.py",
              "test_cylindrical1D_diffusion_steady.py", "test_cylindrical1D_diffusion.py",
              "test_cylindrical1D_diffusion_source_photothermal.py", "test_PyFVTool_basic_test.py",
              "test_pdesolver_mason_weaver.py", "test_runs.py", "test_spherical1D_diffusion.py",
              "test_spherical_coordinate_examples.py", "test_cylindrical2D_convection_Taylor.py",
              "test_PyFVTool_introduction_demo.py"]
QUICK_TESTS = 7
MAX_EVENTS = 20000


def traces(rep, tier, seed):
    """code -> spec: executions recorded by the env-guarded hooks, validated by FVLifecycleTrace"""
    here = os.path.dirname(os.path.dirname(os.path.abspath(__file__)))
    scen = os.path.join(here, "scenarios.py")
    jobs = [("shared-bc", [scen, "shared"], None)]
    nprog, length = (6, 40) if tier == "quick" else (60, 60)
    jobs.append(("random-programs", [scen, "random", str(seed), str(nprog), str(length)], None))
    jobs.append(("random-programs-sharing", [scen, "random", str(seed + 1), str(max(2, nprog // 3)), str(length), "share"], None))
    for t in (REPO_TESTS if tier == "thorough" else REPO_TESTS[:QUICK_TESTS]):
        jobs.append(("repo:" + t, ["-m", "pytest", "-q", "-p", "no:cacheprovider", "-x", os.path.join(drive.REPO, "tests", t)],
                     drive.REPO))
    out = {"traces": 0, "events": 0, "states": 0, "per_trace": {}, "mismatches": {}, "dropped": {}}
    for name, argv, cwd in jobs:
        sink = tlcrun.fresh(name.replace(":", "_").replace("/", "_") + ".ndjson")
        p = record.run_traced(argv, sink, cwd=cwd)
        if p.returncode != 0 and not name.startswith("repo:"):
            raise tlcrun.MachineryError(f"traced program {name} failed:\n{p.stderr[-800:]}")
        if not os.path.exists(sink):
            raise tlcrun.MachineryError(f"no trace recorded for {name} (hooks missing or guard not honoured)")
        events, dropped, nraw = record.normalise(sink)
        os.remove(sink)
        truncated = len(events) > MAX_EVENTS
        events = events[:MAX_EVENTS]
        if not events:
            raise tlcrun.MachineryError(f"empty trace for {name}")
        verdict, res = record.validate(events, name)
        out["traces"] += 1
        out["events"] += len(events)
        out["states"] += res["distinct"]
        out["per_trace"][name] = {"events": len(events), "raw_events": nraw, "truncated": truncated,
                                  "mismatches": len(verdict["mism"]), "violations": len(verdict["viol"]),
                                  "program_exit": p.returncode}
        for k, n in dropped.items():
            out["dropped"][k] = out["dropped"].get(k, 0) + n
        for mm in verdict["mism"]:
            out["mismatches"][mm["what"]] = out["mismatches"].get(mm["what"], 0) + 1
            rep.nonconform("trace:" + mm["what"])
        for vv in verdict["viol"]:
            if vv["manual"]:
                continue           # flags were reset by hand before the solve: outside C09's alphabet
            ev = events[vv["line"] - 1]
            rep.fail("C09_FreshSolve" if vv["clause"] == "C09_FreshAtUse" else vv["clause"],
                     {"shared_bc": vv["shared"], "spec_expects_stale": True, "source": "recorded-trace"},
                     {"trace": name, "line": vv["line"], "event": ev, "prefix": events[max(0, vv["line"] - 12):vv["line"]]})
    return out


def apalache_inductive():
    """extra (thorough tier): Apalache discharges the inductive invariant of FVLifecycleInd - base case,
    inductive step from ANY state satisfying it, and the consequence C09_FreshAtUseUnshared - which
    extends the bounded TLC result to histories of every length (pools of 3 variables / 3 BC objects)"""
    import shutil
    import subprocess
    if not shutil.which("apalache-mc"):
        return {"status": "apalache-mc not available"}
    out = tlcrun.fresh("apalache")
    res = {}
    for name, args in (("base", ["--init=Init", "--inv=IndInv", "--length=0"]),
                       ("step", ["--init=IndInit", "--inv=IndInv", "--length=1"]),
                       ("consequence", ["--init=IndInit", "--inv=C09_FreshAtUseUnshared", "--length=0"])):
        try:
            p = subprocess.run(["apalache-mc", "check"] + args + [f"--out-dir={out}", "MC_FVLifecycleInd.tla"],
                               cwd=tlcrun.SPEC, capture_output=True, text=True, timeout=900)
            res[name] = "NoError" if "The outcome is: NoError" in p.stdout else "FAILED"
        except subprocess.TimeoutExpired:
            res[name] = "timeout"
    shutil.rmtree(out, ignore_errors=True)
    return res


def tlaps_proof():
    """extra (thorough tier): the TLAPS proof that IndInv is inductive for arbitrary Vars / BCs / Sides"""
    import shutil
    import subprocess
    if not shutil.which("tlapm"):
        return {"status": "tlapm not available"}
    work = tlcrun.fresh("tlaps")
    os.makedirs(work, exist_ok=True)
    shutil.copy(os.path.join(tlcrun.SPEC, "proofs", "FVLifecycleIndProof.tla"), work)
    try:
        p = subprocess.run(["tlapm", "--threads", "4", "--stretch", "10", "-I", tlcrun.SPEC, "FVLifecycleIndProof.tla"], cwd=work,
                           capture_output=True, text=True, timeout=1500)
        out = p.stdout + p.stderr
        m = re.search(r"All (\d+) obligations proved", out)
        res = {"status": "proved" if m else "FAILED", "obligations": int(m.group(1)) if m else 0}
    except subprocess.TimeoutExpired:
        res = {"status": "timeout"}
    shutil.rmtree(work, ignore_errors=True)
    return res


def run(tier, seed):
    rep = Report("C09", tier, seed)
    res, shared, trace = model_check(tier)
    if "C09_FreshAtUse is violated" in shared["out"]:
        names = [t[0] for t in trace]
        # the counterexample is the known finding only if two variables refer to one BC object
        if not ({"NewVar", "SolveExplicit"} & set(names)):
            rep.fail("C09_FreshAtUse", {"model": "FVLifecycle", "via": "unshared"}, {"trace": trace})
        else:
            # bind the counterexample to the code: replay it into real objects on every grid class
            cex = []
            for nm, raw in trace:
                if nm == "Init":
                    continue
                args = [a.strip().strip('"') for a in raw.split(",")] if raw.strip() else []
                args = [True if a == "TRUE" else False if a == "FALSE" else a for a in args]
                cex.append({"level": len(cex) + 2, "name": nm, "args": args, "vars": {}, "bcs": {},
                            "use": {"var": -1, "cache": 1, "bc": 1, "exists": True}})
            cex[-1]["use"] = {"var": cex[-1]["args"][0], "cache": 0, "bc": 1, "exists": True}
            jc = lifecycle.Judge()
            for gi in range(len(lifecycle.GRIDS)):
                lifecycle.replay(cex, gi, jc)
            report_failures(rep, jc, ("C09_",))
            if not any(c == "C09_FreshSolve" for c, _, _ in jc.fail):
                rep.nonconform("FVLifecycle predicts a stale solve through a shared BC object; the code solved fresh")
    num, depth = (60, 25) if tier == "quick" else (600, 40)
    behs, sim = lifecycle.simulate("FVLifecycle_sim.cfg", num, depth, seed + 1)
    judge = lifecycle.Judge()
    for k, b in enumerate(behs):
        lifecycle.replay(b, k + seed, judge)
    # every (state, action) pair of the bounded model, each along a shortest path
    ebehs, eres = lifecycle.edge_behaviours(4 if tier == "quick" else 5)
    for k, b in enumerate(ebehs):
        lifecycle.replay(b, k + seed, judge, probe=True)
    # one variable / one BC object, both sides, the full edit alphabet, deeper: every edit - solve - edit - solve
    # pattern (e.g. periodic switched on, solve, switched off, solve) is an edge of this graph
    dbehs, dres = lifecycle.edge_behaviours(5 if tier == "quick" else 7, cfg_name="FVLifecycle_edges_deep.cfg")
    for k, b in enumerate(dbehs):
        lifecycle.replay(b, k + seed + 3, judge, probe=True)
    ebehs = ebehs + dbehs
    if judge.solves == 0:
        raise tlcrun.MachineryError("vacuity: no SolvePDE step was replayed")
    report_failures(rep, judge, ("C09_",))
    tr = traces(rep, tier, seed)
    apa = apalache_inductive() if tier == "thorough" else {"status": "thorough tier only"}
    tlaps = tlaps_proof() if tier == "thorough" else {"status": "thorough tier only"}
    if tlaps.get("status") == "FAILED":
        raise tlcrun.MachineryError(f"tlapm did not prove FVLifecycleIndProof: {tlaps}")
    if "FAILED" in apa.values():
        raise tlcrun.MachineryError(f"Apalache did not discharge the inductive invariant of FVLifecycleInd: {apa}")
    cov = {
        "states": res["distinct"] + sim["states"] + tr["states"], "transitions": res["states"] + sim["states"] + tr["states"],
        "traces_validated_against_impl": len(behs) + len(ebehs) + tr["traces"],
        "state_graph_edges_replayed": len(ebehs), "evaluations": judge.steps + tr["events"],
        "recorded_traces": tr, "apalache_inductive_invariant": apa, "tlaps_proof_unbounded_pools": tlaps,
        "distinct_nontrivial": len({canon_hash([[r["name"], r["args"]] for r in b]) for b in behs if len(b) > 3}),
        "rule": "exhaustive: FVLifecycle with 3 variables, 3 BC objects, all histories to the depth of the tier over the "
                "C09 alphabet (sharing allowed); simulated: behaviours over the full alphabet replayed step by step "
                "into real objects on 7 grid classes; non-trivial = more than 3 actions; distinct by action sequence",
        "exhaustive": False,
        "model_checking": {"distinct_states": res["distinct"], "states_generated": res["states"],
                           "invariants": ["TypeOK", "C09_CacheExists", "C09_FreshAtUseUnshared", "C09_FreshAfter",
                                          "C09_ExplicitUsable", "C14_Independent", "C09_CleanMeansFresh"],
                           "shared_bc_counterexample": [t[0] for t in trace]},
        "replayed_actions": judge.actions, "solves_compared_with_fresh_start": judge.solves,
        "solves_where_spec_expects_stale": judge.stale_expected,
        "samples": [[[r["name"], r["args"]] for r in behs[0][:12]]],
    }
    return rep.finish(cov, assumptions=[
        "semantic observation of freshness: the cached term / ghost layer is recomputed and compared with what the object holds",
        "manual flag resets (x.modified = ...) are outside C09's alphabet"])
