"""C11 - cell-to-face means are true means of the two adjacent cells in any dimension."""
import opscheck
import opsdrive

POS = ["C11_Linear", "C11_Arithmetic", "C11_Harmonic", "C11_Upwind", "C11_UpwindRepeat", "C11_Geometric", "C11_Between",
       "C11_Ordering", "C11_Constants", "C11_LinearExact", "C11_Homogeneous", "C11_InputForms"]
ARB = ["C11_Linear", "C11_Arithmetic", "C11_Upwind", "C11_UpwindRepeat", "C11_Constants", "C11_LinearExact",
       "C11_InputForms"]
ZER = ["C11_Linear", "C11_Arithmetic", "C11_Harmonic", "C11_Upwind"]


def clauses_for(cfg):
    return {"positive": POS, "arbitrary": ARB, "zeros": ZER}[cfg["data"]]


def run(tier, seed):
    return opscheck.run_property(
        "C11", tier, seed, design=opscheck.design_ops("C11", None), clauses_for=clauses_for, n_quick=24, n_thorough=240,
        gen_kw=[{"positive": True}, {"positive": False}, {"positive": False, "zeros": True},
                {"positive": False, "nmax": 5, "nmax3": 3}],
        generator=opsdrive.gen_means_config,
        rule="9 grid classes x cell widths in {1,2} x (positive sixth-power data: bounds, ordering H<=G<=A, geometric "
             "relation G^(w1+w2)=a^w1 b^w2; arbitrary integer data: linear/arithmetic/upwind formulas and linear "
             "exactness; data with exact zeros: harmonic/upwind conventions) x every velocity sign incl. zero; the "
             "face formulas of FVOperators are the property here (each face depends on its two adjacent cells only)")
