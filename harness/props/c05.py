"""C05 - implicit matrix terms and the explicit gradient/mean/divergence chain agree."""
import opscheck
import opsdrive

CLAUSES = ["C05_Diffusion", "C05_Central", "C05_Upwind", "C05_UpwindAlt", "C05_TvdZero", "C05_TvdUnit"]


def run(tier, seed):
    return opscheck.run_property(
        "C05", tier, seed, design=opscheck.design_ops("C05", None), clauses_for=lambda cfg: CLAUSES, extra_configs=opsdrive.systematic_configs(variants=(True, False, "uni")) + opsdrive.large_configs(), n_quick=18, n_thorough=150,
        gen_kw=[{}, {"nmax": 2}, {"uniform": True, "nmin": 3}], extra_conform=["grad", "linmean", "upmean", "divu", "tvd1"],
        rule="9 grid classes x seeded spacings / coefficient fields / velocity sign patterns; each episode compares "
             "the builder matrix with the explicit chain applied to the full unit basis (ghost cells included); "
             "non-trivial = at least two cells on some axis; distinct by canonical hash")
