"""Verdict bookkeeping: known findings, VIOLATION / KNOWN-FINDING lines, evidence files."""
import hashlib
import json
import os
import sys
import time

from tlcrun import VERIF

KNOWN_FILE = os.path.join(VERIF, "known_findings.json")
# (the two directories can be redirected for evaluation runs against scratch copies of the repository)
EVIDENCE_DIR = os.environ.get("VERIF_EVIDENCE_DIR", os.path.join(VERIF, "evidence"))
REPLAY_DIR = os.environ.get("VERIF_REPLAY_DIR", os.path.join(VERIF, "replays"))


def load_known():
    if not os.path.exists(KNOWN_FILE):
        return []
    with open(KNOWN_FILE) as fh:
        return json.load(fh)["findings"]


def _matches(entry, prop, sig):
    if entry.get("property") != prop or entry.get("status") != "known":
        return False
    def ok(k, v):
        if isinstance(v, list):          # any of the listed values
            return str(sig.get(k)) in [str(x) for x in v]
        return str(sig.get(k)) == str(v)
    return all(ok(k, v) for k, v in entry.get("match", {}).items())


class Report:
    """collects the failures of one check run and turns them into the contractual output"""

    def __init__(self, prop, tier, seed, level="model_checking"):
        self.prop, self.tier, self.seed, self.level = prop, tier, seed, level
        self.t0 = time.time()
        self.failures = []          # (sig dict, witness)
        self.notes = []
        self.nonconforming = {}     # builder/grid -> count (reference tripwire, never a verdict)

    def fail(self, clause, sig, witness):
        """property predicate `clause` is FALSE on values observed from the code"""
        s = dict(sig)
        s["clause"] = clause
        self.failures.append((s, witness))

    def nonconform(self, what):
        self.nonconforming[what] = self.nonconforming.get(what, 0) + 1

    def finish(self, coverage, assumptions=()):
        known = load_known()
        seen_known = {}
        new = {}
        for sig, wit in self.failures:
            hit = next((e for e in known if _matches(e, self.prop, sig)), None)
            if hit is not None:
                seen_known.setdefault(hit["id"], [hit, 0])[1] += 1
            else:
                key = json.dumps(sig, sort_keys=True)
                new.setdefault(key, (sig, wit, [0]))[2][0] += 1
        for hid, (e, n) in sorted(seen_known.items()):
            print(f"KNOWN-FINDING: property={self.prop} {e['what']} [{hid}, seen {n}x]")
        os.makedirs(REPLAY_DIR, exist_ok=True)
        shown = 0
        for key, (sig, wit, n) in sorted(new.items()):
            h = hashlib.sha1(key.encode()).hexdigest()[:10]
            path = os.path.join(REPLAY_DIR, f"{self.prop}-{h}.json")
            with open(path, "w") as fh:
                json.dump({"property": self.prop, "signature": sig, "count": n[0], "witness": wit,
                           "seed": self.seed, "tier": self.tier}, fh, indent=1, default=str)
            if shown < 12:
                print(f"VIOLATION property={self.prop} replay={path}")
                print(f"  signature: {json.dumps(sig, sort_keys=True)}", file=sys.stderr)
            shown += 1
        if shown > 12:
            print(f"  ... and {shown - 12} more distinct violation signatures (see {REPLAY_DIR})", file=sys.stderr)
        if self.nonconforming:
            print(f"note: non-conformance to the reference semantics (not a verdict): "
                  f"{json.dumps(self.nonconforming, sort_keys=True)}", file=sys.stderr)
        cov = dict(coverage)
        cov["known_findings_seen"] = {k: v[1] for k, v in seen_known.items()}
        cov["nonconforming"] = self.nonconforming
        cov["new_violation_signatures"] = [json.loads(k) for k in sorted(new)][:20]
        ev = {"property_id": self.prop, "tier": self.tier, "seed": self.seed, "level": self.level,
              "coverage": cov, "assumptions": list(assumptions),
              "wall_s": round(time.time() - self.t0, 2), "violations": len(new)}
        os.makedirs(EVIDENCE_DIR, exist_ok=True)
        with open(os.path.join(EVIDENCE_DIR, f"{self.prop}.json"), "w") as fh:
            json.dump(ev, fh, indent=1, default=str)
        return 1 if new else 0


def canon_hash(obj):
    return hashlib.sha1(json.dumps(obj, sort_keys=True, default=str).encode()).hexdigest()
