"""Machinery self-test: the binding between specification and code is demonstrated by corrupting
recorded observations and by removing a logged event - each corruption must be rejected with the
right clause, and the uncorrupted recording must be accepted."""
import copy
import json
import os
import random
import sys

import opscheck
import opsdrive
import record
import tlcrun
from findings import EVIDENCE_DIR


def run():
    results = []

    def expect(name, cond, detail=""):
        results.append({"demo": name, "ok": bool(cond), "detail": detail})
        print(("ok   " if cond else "FAIL ") + name + (" - " + detail if detail and not cond else ""))

    # 1. numeric layer: one matrix entry changed by 1/1000 is caught by the code-vs-code identity
    rng = random.Random(7)
    cfg = opsdrive.gen_config(rng, "CylindricalGrid2D", nmax=3)
    clauses = ["C05_Diffusion", "C06_DiffConst", "C03_Robin"]
    eps = opscheck.make_episodes([cfg], lambda c: clauses)
    good = copy.deepcopy(eps[0]); good["id"] = 0
    bad = copy.deepcopy(eps[0]); bad["id"] = 1
    n, d = bad["obs"]["Mdiff"][0][2]
    bad["obs"]["Mdiff"][0][2] = [n * 1000 + d, d * 1000]
    ghost = copy.deepcopy(eps[0]); ghost["id"] = 2
    g = ghost["obs"]["ghost"][0][1]               # ghost cell behind the first boundary face of side "left"
    ghost["obs"]["ghost"][0][1] = [g[0] + g[1], g[1]]          # a ghost value off by one
    by, _ = opscheck.validate([good, bad, ghost], chunk=3)
    expect("uncorrupted episode accepted", by[0]["failing"] == [], str(by[0]))
    expect("corrupted matrix entry rejected by C05_Diffusion and C06_DiffConst",
           {"C05_Diffusion", "C06_DiffConst"} <= set(by[1]["failing"]), str(by[1]["failing"]))
    expect("corrupted ghost value rejected by C03_Robin", "C03_Robin" in by[2]["failing"], str(by[2]["failing"]))
    # cell indices such as (1, 0) in matrix entries are not `unliftable' markers; a marked value is
    has_10 = any(e[0] == [1, 0] or e[1] == [1, 0] for e in good["obs"]["Mdiff"])
    expect("a cell index (1, 0) is not mistaken for the unliftable marker",
           has_10 and "Mdiff" not in opscheck.outputs_with_unknown(good["obs"]), str(has_10))
    marked = copy.deepcopy(good); marked["obs"]["Mdiff"][0][2] = [1, 0]
    expect("an unliftable matrix value is reported as such", "Mdiff" in opscheck.outputs_with_unknown(marked["obs"]))

    # 2. lifecycle layer: recorded trace of a real program; drop one hook event / flip one logged field
    here = os.path.dirname(os.path.abspath(__file__))
    sink = tlcrun.fresh("selftest.ndjson")
    p = record.run_traced([os.path.join(here, "scenarios.py"), "random", "11", "3", "40"], sink)
    if p.returncode != 0:
        raise tlcrun.MachineryError("selftest scenario failed: " + p.stderr[-400:])
    events, _, _ = record.normalise(sink)
    v0, _ = record.validate(events, "selftest-ok")
    expect("recorded trace accepted", not v0["viol"] and not v0["mism"], str(v0)[:200])
    # a minimal program: solve ; one slice edit of a boundary coefficient ; solve
    sink2 = tlcrun.fresh("selftest2.ndjson")
    p2 = record.run_traced([os.path.join(here, "scenarios.py"), "selftest"], sink2)
    if p2.returncode != 0:
        raise tlcrun.MachineryError("selftest scenario failed: " + p2.stderr[-400:])
    ev2, _, _ = record.normalise(sink2)
    va, _ = record.validate(ev2, "selftest2-ok")
    expect("minimal recorded trace accepted", not va["viol"] and not va["mism"], str(va)[:200])
    edits = [k for k, e in enumerate(ev2) if e["ev"] == "EditBC"]
    solves = [k for k, e in enumerate(ev2) if e["ev"] == "SolvePDE"]
    expect("minimal trace has one edit between two solves", len(edits) == 1 and len(solves) == 2 and solves[0] < edits[0] < solves[1])
    flipped = copy.deepcopy(ev2)
    flipped[solves[1]]["entry"] = False             # pretend the entry check did not fire
    v1, _ = record.validate(flipped, "selftest-flip")
    expect("flipped 'entry' field rejected with C09_FreshAtUse",
           any(x["clause"] == "C09_FreshAtUse" for x in v1["viol"]), str(v1)[:200])
    dropped = [e for k, e in enumerate(ev2) if k not in edits]      # as if the __setitem__ hook were missing
    v2, _ = record.validate(dropped, "selftest-drop")
    expect("dropped hook event rejected (entry check without a recorded cause)",
           any(x["what"].startswith("entry_check") for x in v2["mism"]), str(v2)[:200])
    ok = all(r["ok"] for r in results)
    os.makedirs(EVIDENCE_DIR, exist_ok=True)
    with open(os.path.join(EVIDENCE_DIR, "selftest.json"), "w") as fh:
        json.dump({"results": results, "ok": ok}, fh, indent=1)
    return 0 if ok else 2
