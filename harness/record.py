"""Consumer of the env-guarded hooks: raw ndjson -> normalised event list -> FVLifecycleTrace.

Only depth-0 events (public calls issued by the program under observation) are kept; calls nested
inside another public call are part of that call's atomic action in the spec.
"""
import json
import os
import subprocess
import sys

import tlcrun

GUARD = "PYFVTOOL_VERIF_TRACE"
SIDES = ["left", "right", "bottom", "top", "back", "front"]


def normalise(path):
    events, dropped = [], {}
    with open(path) as fh:
        raw = [json.loads(line) for line in fh if line.strip()]
    for r in raw:
        if r.get("depth", 0) != 0:
            continue
        ev = r["event"]
        if r.get("recorder_error"):
            raise tlcrun.MachineryError(f"recorder error in {path}: {r['recorder_error']}")
        err = r.get("error") or "none"

        def obs(x):
            return {"val_dirty": x["val_dirty"], "has_cache": x["has_cache"], "dirty": x["dirty"]}
        if ev == "new_bc":
            events.append({"ev": "NewBC", "b": r["bc"]})
        elif ev == "new_var":
            if err != "none" or "var" not in r:
                dropped["new_var_error"] = dropped.get("new_var_error", 0) + 1
                continue
            kind = "default" if not r["bc_given"] else ("adopt" if r["bc_first_seen"] else "shared")
            events.append({"ev": "NewVar", "v": r["var"], "b": r["bc"], "pc": r["precalc"], "kind": kind,
                           "ghost_given": r["ghost_given"], "obs": obs(r)})
        elif ev in ("setitem", "setflag"):
            role = r.get("role")
            if not role:
                dropped[ev + "_unknown_array"] = dropped.get(ev + "_unknown_array", 0) + 1
                continue
            if role[0] == "value":
                if ev == "setitem":
                    events.append({"ev": "AssignValue", "v": role[1], "obs": {"val_dirty": r["flag"]}})
                else:
                    events.append({"ev": "SetFlag", "kind": "value", "v": role[1], "value": r["value"]})
            else:
                if ev == "setitem":
                    events.append({"ev": "EditBC", "b": role[0], "s": role[1], "side_flag": r.get("side_flag", True)})
                else:
                    events.append({"ev": "SetFlag", "kind": "coef", "b": role[0], "s": role[1], "value": r["value"],
                                   "side_flag": r.get("side_flag", r["value"])})
        elif ev == "face_setflag":
            role = r.get("role")
            if not role:
                dropped["face_unknown"] = dropped.get("face_unknown", 0) + 1
                continue
            events.append({"ev": "SetFlag", "kind": "face", "b": role[0], "s": role[1], "value": r["value"],
                           "side_flag": r["flag"]})
        elif ev == "bc_setflag":
            events.append({"ev": "SetFlag", "kind": "bc", "b": r["bc"], "value": r["value"], "side_flag": False})
        elif ev == "periodic":
            role = r.get("role")
            if not role:
                dropped["periodic_unknown"] = dropped.get("periodic_unknown", 0) + 1
                continue
            events.append({"ev": "EditBC", "b": role[0], "s": role[1], "side_flag": r["flag"]})
        elif ev == "apply_bcs":
            events.append({"ev": "ApplyBCs", "v": r["var"], "obs": obs(r)})
        elif ev == "update_value":
            events.append({"ev": "UpdateValue", "v": r["var"], "w": r["src"], "obs": obs(r)})
        elif ev == "copy":
            if "var" in r:
                events.append({"ev": "Copy", "v": r["src"], "w": r["var"], "b": r["bc"], "obs": obs(r)})
        elif ev == "solve_pde":
            events.append({"ev": "SolvePDE", "v": r["var"], "entry": r["applies"] >= 2 or (err != "none" and r["applies"] >= 1),
                           "error": err, "obs": obs(r)})
        elif ev == "solve_explicit":
            if "res" in r:
                events.append({"ev": "SolveExplicit", "v": r["src"]["var"], "r": r["res"]["var"],
                               "entry": r["applies"] >= 2, "obs_src": obs(r["src"]), "obs_res": obs(r["res"])})
        elif ev == "solve_matrix":
            if "var" in r:
                events.append({"ev": "SolveMatrix", "r": r["var"], "b": r["bc"]})
        else:
            dropped[ev] = dropped.get(ev, 0) + 1
    events, ntemp = compress(events)
    dropped["temporaries"] = ntemp
    return events, dropped, len(raw)


def compress(events, max_ids=40):
    """drop the creation of objects that no later event refers to (coefficient variables, operands
    of term builders, ...), renumber the remaining ids densely, and cut the trace before the id
    pool would exceed `max_ids` (trace validation cost grows with the pool size)"""
    used = set()
    for e in events:
        ev = e["ev"]
        if ev == "NewVar":
            if e["kind"] == "shared":
                used.add(e["b"])
        elif ev == "NewBC":
            pass
        elif ev == "Copy":
            used.add(e["v"])
        elif ev == "SolveExplicit":
            used.add(e["v"]); used.add(e["r"])
        elif ev == "SolveMatrix":
            pass
        elif ev == "UpdateValue":
            used.add(e["v"]); used.add(e["w"])
        else:
            for k in ("v", "b"):
                if isinstance(e.get(k), int):
                    used.add(e[k])
    out, ntemp = [], 0
    for e in events:
        ev = e["ev"]
        if ev == "NewVar" and e["v"] not in used and (e["kind"] == "shared" or e["b"] not in used):
            ntemp += 1
            continue
        if ev == "NewBC" and e["b"] not in used:
            ntemp += 1
            continue
        if ev == "Copy" and e["w"] not in used and e["b"] not in used:
            ntemp += 1
            continue
        if ev == "SolveMatrix" and e["r"] not in used and e["b"] not in used:
            ntemp += 1
            continue
        out.append(e)
    return recycle(out, max_ids), ntemp


def recycle(events, max_ids):
    """give every object (variable or BC object) a slot of a bounded pool for as long as the trace still
    refers to it: after the last reference a `Drop' (variable; its BC object goes with its last user) or
    `DropBC' (BC object without users) event is inserted and the slot is reused - the specification's Drop
    action.  A variable is kept until the last reference to its BC object, so that the object stays alive
    for later users.  The trace is cut where more than `max_ids` objects would be live at once."""
    VKEYS, BKEY = ("v", "w", "r"), "b"
    last = {}
    for i, e in enumerate(events):
        for k in VKEYS + (BKEY,):
            if isinstance(e.get(k), int):
                last[e[k]] = i
    bc_of, users = {}, {}

    def bind(v, b):
        bc_of[v] = b
        users.setdefault(b, set()).add(v)
    slot, free, nxt = {}, [], [1]

    def alloc(x):
        if x not in slot:
            if free:
                slot[x] = free.pop(0)
            else:
                slot[x] = nxt[0]
                nxt[0] += 1
        return slot[x]
    out = []
    live_vars, live_bcs = set(), set()
    for i, e in enumerate(events):
        ev = e["ev"]
        if ev == "NewVar":
            bind(e["v"], e["b"])
        elif ev == "Copy":
            bind(e["w"], e["b"])
        elif ev == "SolveMatrix":
            bind(e["r"], e["b"])
        elif ev == "SolveExplicit" and e["v"] in bc_of:
            bind(e["r"], bc_of[e["v"]])
        ne = dict(e)
        for k in VKEYS:
            if isinstance(e.get(k), int):
                ne[k] = alloc(e[k])
                live_vars.add(e[k])
        if isinstance(e.get(BKEY), int):
            ne[BKEY] = alloc(e[BKEY])
            live_bcs.add(e[BKEY])
        if nxt[0] - 1 > max_ids:
            break
        out.append(ne)
        # objects whose last reference has passed
        for v in sorted(x for x in live_vars if max(last[x], last.get(bc_of.get(x), -1)) <= i):
            b = bc_of.get(v)
            out.append({"ev": "Drop", "v": slot[v]})
            live_vars.discard(v)
            free.append(slot.pop(v))
            if b is not None:
                users[b].discard(v)
                if not users[b] and b in slot:       # the spec's Drop frees the BC object with its last user
                    live_bcs.discard(b)
                    free.append(slot.pop(b))
        for b in sorted(x for x in live_bcs if last[x] <= i and not users.get(x)):
            out.append({"ev": "DropBC", "b": slot[b]})
            live_bcs.discard(b)
            free.append(slot.pop(b))
        free.sort()
    return out


def max_id(events):
    m = 1
    for e in events:
        for k in ("v", "w", "r", "b"):
            if isinstance(e.get(k), int):
                m = max(m, e[k])
    return m


def validate(events, tid, timeout=900):
    """run FVLifecycleTrace on one normalised trace; returns the verdict record"""
    n = max_id(events)
    ids = ", ".join(str(i) for i in range(1, n + 1))
    cfg = f"""SPECIFICATION TSpec
CONSTANTS
  BCs = {{{ids}}}
  Vars = {{{ids}}}
  Sides = {{"left", "right", "bottom", "top", "back", "front"}}
  MaxDepth = 0
  UserSharing = TRUE
  ManualReset = TRUE
  UserNoPrecalc = TRUE
  Hows = {{"coef"}}
  BuildKinds = {{}}
POSTCONDITION TraceAccepted
"""
    cpath = tlcrun.fresh("trace.cfg")
    open(cpath, "w").write(cfg)
    tpath = tlcrun.fresh("trace.json")
    with open(tpath, "w") as fh:
        json.dump({"id": tid, "events": events}, fh)
    res = tlcrun.run_tlc("FVLifecycleTrace.tla", cpath, env={"TRACE_FILE": tpath}, workers=1, timeout=timeout,
                         heap="4g")
    if not res["ok"] or not res["printed"]:
        raise tlcrun.MachineryError(f"FVLifecycleTrace failed on trace {tid}:\n" + tlcrun.tlc_error_excerpt(res["out"]))
    return res["printed"][-1], res


def run_traced(argv, sink, cwd=None, extra_env=None, timeout=1800):
    """run a python program with the hooks on, importing pyfvtool from the working tree under test"""
    import drive
    env = dict(os.environ)
    env[GUARD] = sink
    env["PYTHONPATH"] = drive.SRC + os.pathsep + os.path.dirname(os.path.abspath(__file__))
    env["PYTHONDONTWRITEBYTECODE"] = "1"
    env["MPLBACKEND"] = "Agg"
    if extra_env:
        env.update(extra_env)
    if os.path.exists(sink):
        os.remove(sink)
    p = subprocess.run([sys.executable] + argv, cwd=cwd, env=env, capture_output=True, text=True, timeout=timeout)
    return p
