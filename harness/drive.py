"""Configuration record  ->  real pyfvtool calls.  Imports pyfvtool from /repo's working tree."""
import math
import os
import sys
from fractions import Fraction

REPO = os.environ.get("VERIF_REPO", "/repo")
SRC = os.path.join(REPO, "src")

_pf = None
_np = None


def pf():
    """the package under test, imported from the *current working tree* of /repo"""
    global _pf, _np
    if _pf is None:
        sys.dont_write_bytecode = True
        for k in [k for k in sys.modules if k == "pyfvtool" or k.startswith("pyfvtool.")]:
            del sys.modules[k]
        sys.path.insert(0, SRC)
        import numpy
        import pyfvtool
        if not os.path.abspath(pyfvtool.__file__).startswith(os.path.abspath(SRC)):
            raise RuntimeError(f"pyfvtool imported from {pyfvtool.__file__}, expected {SRC}")
        _pf, _np = pyfvtool, numpy
    return _pf


def np():
    pf()
    return _np


AXIS_LABELS = {      # docs/user_guide/meshes.md
    "Grid1D": ["x"], "CylindricalGrid1D": ["r"], "SphericalGrid1D": ["r"],
    "Grid2D": ["x", "y"], "CylindricalGrid2D": ["r", "z"], "PolarGrid2D": ["r", "theta"],
    "Grid3D": ["x", "y", "z"], "CylindricalGrid3D": ["r", "theta", "z"],
    "SphericalGrid3D": ["r", "theta", "phi"],
}
ALL_LABELS = ["x", "y", "z", "r", "theta", "phi"]
CLASSES = list(AXIS_LABELS)


def dim(cls):
    return len(AXIS_LABELS[cls])


def is_angular(cls, a):
    return AXIS_LABELS[cls][a] in ("theta", "phi")


def fr(q):
    return Fraction(q[0], q[1])


def axis_unit(cfg, a):
    """float factor that converts the rational coordinate of axis a into the code's float"""
    if is_angular(cfg["cls"], a) and cfg.get("aunit") == "pi":
        return math.pi
    return 1.0


def make_mesh(cfg):
    """cfg: {cls, ctor: faces|NL, faces: [[ [n,d],...],...], N, L, aunit}"""
    P, n = pf(), np()
    C = getattr(P, cfg["cls"])
    d = dim(cfg["cls"])
    if cfg["ctor"] == "faces":
        args = [n.array([float(fr(q)) * axis_unit(cfg, a) for q in cfg["faces"][a]]) for a in range(d)]
    else:
        args = [int(x) for x in cfg["N"]] + [float(fr(cfg["L"][a])) * axis_unit(cfg, a) for a in range(d)]
    import warnings
    with warnings.catch_warnings():
        warnings.simplefilter("ignore")
        return C(*args)
