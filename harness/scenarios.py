"""Programs executed with the recorder hooks on (run as a subprocess by props/c09.py):

    python scenarios.py random <seed> <n programs> <length>     seeded random API programs
    python scenarios.py shared                                   the shared-BC scenario (known finding)
"""
import random
import sys
import warnings

import numpy as np

warnings.simplefilter("ignore")
import pyfvtool as pf  # noqa: E402

GRIDS = [
    lambda: (pf.Grid1D(np.array([0.0, 1.0, 3.0, 4.0])), ["left", "right"]),
    lambda: (pf.Grid2D(np.array([0.0, 1.0, 3.0]), np.array([0.0, 2.0, 3.0, 4.0])), ["left", "right", "bottom", "top"]),
    lambda: (pf.Grid3D(2, 2, 2, 1.0, 2.0, 3.0), ["left", "right", "bottom", "top", "back", "front"]),
    lambda: (pf.CylindricalGrid2D(np.array([0.0, 1.0, 2.0]), np.array([0.0, 1.0, 3.0])), ["right", "bottom", "top"]),
    lambda: (pf.PolarGrid2D(np.array([1.0, 2.0, 4.0]), np.array([0.0, 1.0, 2.0])), ["left", "right", "bottom", "top"]),
    lambda: (pf.CylindricalGrid3D(2, 2, 2, 2.0, 3.0, 1.0), ["right", "bottom", "top", "back", "front"]),
    lambda: (pf.SphericalGrid1D(np.array([1.0, 2.0, 4.0])), ["left", "right"]),
]
RADIAL = {"left", "right"}


def terms(m):
    D = pf.FaceVariable(m, 1.5)
    return [pf.linearSourceTerm(pf.CellVariable(m, 2.0)), pf.constantSourceTerm(pf.CellVariable(m, 3.0)),
            -pf.diffusionTerm(D)]


def program(rng, length, share=False):
    m, sides = GRIDS[rng.randrange(len(GRIDS))]()
    cart = type(m).__name__.startswith("Grid")
    vs = [pf.CellVariable(m, rng.random() + np.ones(tuple(m.dims)))]
    cnt = [0]
    held = {}

    def fresh():
        cnt[0] += 1
        return float(cnt[0])
    for _ in range(length):
        v = rng.choice(vs)
        op = rng.choice(["coef", "coef", "slice", "view", "view", "utility", "periodic", "assign", "assign_slice", "update",
                         "copy", "arith", "apply", "solve", "solve", "explicit", "newvar"])
        side = getattr(v.BCs, rng.choice(sides))
        if op == "coef":
            side.a = 1.0; side.b = 1.0; side.c = 10.0 + fresh()
        elif op == "slice":
            side.c[tuple(slice(0, 1) for _ in side.c.shape)] = 20.0 + fresh()
        elif op == "view":
            # a slice view taken once and held across solves; every later "view" edit of this side writes through it
            if id(side) not in held:
                held[id(side)] = (side, side.c[tuple(slice(0, 1) for _ in side.c.shape)])
            held[id(side)][1][...] = 50.0 + fresh()
        elif op == "utility":
            side.newtonCooling(1.0, 3.0, 30.0 + fresh())
        elif op == "periodic":
            cand = [x for x in sides if cart or x not in RADIAL]
            if cand:
                f = getattr(v.BCs, rng.choice(cand))
                f.periodic = not f.periodic
        elif op == "assign":
            v.value = fresh() + np.ones(tuple(m.dims))
        elif op == "assign_slice":
            v.value[tuple(slice(0, 1) for _ in m.dims)] = 100.0 + fresh()
        elif op == "update" and len(vs) > 1:
            w = rng.choice([x for x in vs if x is not v])
            v.update_value(w)
        elif op == "copy" and len(vs) < 5:
            vs.append(v.copy())
        elif op == "arith" and len(vs) < 5:
            vs.append(rng.choice([lambda x: x + 1.5, lambda x: 2.0 * x, lambda x: -x])(v))
        elif op == "apply":
            v.apply_BCs()
        elif op == "solve":
            pf.solvePDE(v, terms(m))
        elif op == "explicit" and len(vs) < 5 and share:
            vs.append(pf.solveExplicitPDE(v, 0.125, pf.constantSourceTerm(pf.CellVariable(m, 1.0 + fresh()))))
        elif op == "newvar" and len(vs) < 5:
            vs.append(pf.CellVariable(m, fresh() + np.ones(tuple(m.dims)), v.BCs) if share
                      else pf.CellVariable(m, fresh() + np.ones(tuple(m.dims))))


def shared():
    m = pf.Grid1D(4, 1.0)
    v1 = pf.CellVariable(m, 1.0)
    v2 = pf.CellVariable(m, 2.0, v1.BCs)
    v1.BCs.left.a = 0.0
    v1.BCs.left.b = 1.0
    v1.BCs.left.c = 7.0
    v1.apply_BCs()
    pf.solvePDE(v2, terms(m))


def selftest():
    m = pf.Grid2D(2, 3, 1.0, 1.0)
    v = pf.CellVariable(m, 1.0)
    pf.solvePDE(v, terms(m))
    v.BCs.top.c[0:1] = 4.0           # the only edit before the second solve
    pf.solvePDE(v, terms(m))


if __name__ == "__main__":
    if sys.argv[1] == "shared":
        shared()
    elif sys.argv[1] == "selftest":
        selftest()
    else:
        rng = random.Random(int(sys.argv[2]))
        for _ in range(int(sys.argv[3])):
            program(rng, int(sys.argv[4]), share=(len(sys.argv) > 5 and sys.argv[5] == "share"))
