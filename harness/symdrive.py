"""C08 driver: redundant axes, axis relabelling, mirroring.

A small configuration and its image under a symmetry map E (built here, exactly) are both run
through the real builders / solvers; TLC compares the two sets of outputs through the cell map
of FVProperties (C08_*).  Forward formulation for the solver clause: the data of the small
problem (derived from its target x*) are *mapped* to the big grid - not re-derived there - and
the big solve must return E(x*).
"""
import contextlib
import copy
import io
import itertools
import warnings
from fractions import Fraction as Fr

import drive
import lift
import opsdrive
import solvedrive
from opsdrive import dec, enc, nested, SIDES, trans_shape

EXTRUSIONS = [   # (small class, big class, position of the new axis (0-based) in the big class)
    ("Grid1D", "Grid2D", 1), ("Grid2D", "Grid3D", 2), ("Grid1D", "Grid2D", 0), ("Grid2D", "Grid3D", 0),
    ("Grid2D", "Grid3D", 1),
    ("CylindricalGrid1D", "CylindricalGrid2D", 1), ("CylindricalGrid1D", "PolarGrid2D", 1),
    ("CylindricalGrid2D", "CylindricalGrid3D", 1), ("PolarGrid2D", "CylindricalGrid3D", 2),
]


def arr(nest):
    """nested [n,d] lists -> numpy object array of Fractions"""
    np = drive.np()

    def shape(x):
        s = []
        while isinstance(x, list) and not (len(x) == 2 and all(isinstance(v, int) for v in x)):
            s.append(len(x))
            x = x[0]
        return s
    shp = shape(nest)
    out = np.empty(shp, dtype=object)
    for ix in itertools.product(*[range(n) for n in shp]):
        t = nest
        for k in ix:
            t = t[k]
        out[ix] = Fr(t[0], t[1])
    return out


def unarr(a):
    if not hasattr(a, "ndim"):
        return enc(a)
    if a.ndim == 0:
        return enc(a.item())
    return [unarr(a[k]) for k in range(a.shape[0])]


def new_axis_faces(rng, cls, pos, n):
    lab = drive.AXIS_LABELS[cls][pos]
    if lab == "theta":
        base = [Fr(1, 2), Fr(1), Fr(2), Fr(3)]
        return base[:n + 1] if rng.random() < 0.5 else [Fr(1), Fr(2), Fr(3)][:n + 1]
    h = rng.choice([Fr(1), Fr(2)])
    return [k * h for k in range(n + 1)]


def extrude(rng, small, big_cls, pos):
    """big configuration whose data do not vary along the new axis `pos`"""
    np = drive.np()
    n_new = rng.choice([1, 2])
    per_new = rng.random() < 0.4
    big = copy.deepcopy(small)
    big["cls"] = big_cls
    fnew = new_axis_faces(rng, big_cls, pos, n_new)
    big["faces"] = small["faces"][:pos] + [[enc(x) for x in fnew]] + small["faces"][pos:]
    ds = len(small["faces"])

    def rep(a, count):          # replicate array a along a new axis at `pos`
        return np.repeat(np.expand_dims(a, pos), count, axis=pos)
    for key in ("D", "u", "uup"):
        comps = []
        for a_small in range(ds):
            comps.append(unarr(rep(arr(small[key][a_small]), n_new)))
        # component along the new axis: D arbitrary, u = 0 (no flow along the redundant axis)
        dims_big = opsdrive.dims_of(big)
        shp = opsdrive.face_shape(dims_big, pos)
        val = (lambda ix: enc(rng.choice([0, 1, 2]))) if key == "D" else (lambda ix: enc(0))
        comps.insert(pos, nested(shp, val))
        big[key] = comps
    for key in ("beta", "gamma", "alpha", "old", "old2"):
        if key in small:
            big[key] = unarr(rep(arr(small[key]), n_new))
    for key in ("phi", "xstar", "xstar2"):
        if key in small:
            big[key] = unarr(rep(arr(small[key]), n_new + 2))
    # zero the cells that are ghost along two axes (inert in the code)
    dims_big = opsdrive.dims_of(big)
    for key in ("xstar", "xstar2"):
        if key in big:
            a = arr(big[key])
            for ix in itertools.product(*[range(n + 2) for n in dims_big]):
                if sum(1 for k, i in enumerate(ix) if i == 0 or i == dims_big[k] + 1) > 1:
                    a[ix] = Fr(0)
            big[key] = unarr(a)
    # boundary conditions: old sides keep their (replicated) arrays; new sides no-flux or periodic
    bc = {}
    old_axes = [a for a in range(ds + 1) if a != pos]
    for k, a_big in enumerate(old_axes):
        for s_small, s_big in zip(SIDES[k], SIDES[a_big]):
            side = small["bc"][s_small]
            nb = {"periodic": side["periodic"], "kind": side.get("kind")}
            # transverse axes of the big side, in order, and where the new axis sits among them
            trans_big = [b for b in range(ds + 1) if b != a_big]
            ins = trans_big.index(pos)
            for ck in ("a", "b", "c", "c2"):
                if ck in side:
                    a0 = arr(side[ck])
                    if ds == 1:
                        a0 = a0.reshape(())            # 1D sides hold a single value
                        nb[ck] = unarr(np.repeat(np.expand_dims(a0, 0), n_new, axis=0))
                    else:
                        nb[ck] = unarr(np.repeat(np.expand_dims(a0, ins), n_new, axis=ins))
            bc[s_big] = nb
    shp = trans_shape(dims_big, pos)
    for s in SIDES[pos]:
        bc[s] = {"a": nested(shp, lambda ix: enc(1)), "b": nested(shp, lambda ix: enc(0)),
                 "c": nested(shp, lambda ix: enc(0)), "c2": nested(shp, lambda ix: enc(0)),
                 "periodic": per_new, "kind": "periodic" if per_new else "noflux"}
    big["bc"] = bc
    big["aunit"] = "rad"
    return big, {"kind": "extrude", "pos": pos + 1, "n": n_new}


def permute(small, perm):
    """Cartesian grid with axes relabelled: big axis a = small axis perm[a] (0-based)"""
    np = drive.np()
    big = copy.deepcopy(small)
    d = len(perm)
    big["faces"] = [small["faces"][perm[a]] for a in range(d)]
    for key in ("D", "u", "uup"):
        big[key] = [unarr(np.transpose(arr(small[key][perm[a]]), perm)) for a in range(d)]
    for key in ("beta", "gamma", "alpha", "old", "old2", "phi", "xstar", "xstar2"):
        if key in small:
            big[key] = unarr(np.transpose(arr(small[key]), perm))
    bc = {}
    for a in range(d):
        src_axis = perm[a]
        trans_small = [b for b in range(d) if b != src_axis]
        trans_big = [perm[b] for b in range(d) if b != a]          # small axes in big transverse order
        order = [trans_small.index(x) for x in trans_big]
        for s_big, s_small in zip(SIDES[a], SIDES[src_axis]):
            side = small["bc"][s_small]
            nb = {"periodic": side["periodic"], "kind": side.get("kind")}
            for ck in ("a", "b", "c", "c2"):
                if ck in side:
                    a0 = arr(side[ck])
                    nb[ck] = unarr(np.transpose(a0, order) if a0.ndim == len(order) and a0.ndim > 1 else a0)
            bc[s_big] = nb
    big["bc"] = bc
    return big, {"kind": "permute", "perm": [p + 1 for p in perm]}


def mirror(small, axis):
    """Cartesian grid mirrored along `axis`: x -> lo + hi - x, velocity component reversed, sides swapped,
    and a -> -a on the two swapped sides (the BC is written along the axis direction)"""
    np = drive.np()
    big = copy.deepcopy(small)
    d = len(small["faces"])
    f = [dec(q) for q in small["faces"][axis]]
    big["faces"][axis] = [enc(f[0] + f[-1] - x) for x in reversed(f)]
    for key in ("D", "u", "uup"):
        comps = []
        for a in range(d):
            a0 = np.flip(arr(small[key][a]), axis=axis)
            if key != "D" and a == axis:
                a0 = -a0
            comps.append(unarr(a0))
        big[key] = comps
    for key in ("beta", "gamma", "alpha", "old", "old2", "phi", "xstar", "xstar2"):
        if key in small:
            big[key] = unarr(np.flip(arr(small[key]), axis=axis))
    bc = {}
    for a in range(d):
        for k, s in enumerate(SIDES[a]):
            src = SIDES[a][1 - k] if a == axis else s
            side = small["bc"][src]
            nb = {"periodic": side["periodic"], "kind": side.get("kind")}
            trans = [b for b in range(d) if b != a]
            for ck in ("a", "b", "c", "c2"):
                if ck in side:
                    a0 = arr(side[ck])
                    if a != axis and a0.ndim == len(trans) and axis in trans:
                        a0 = np.flip(a0, axis=trans.index(axis))
                    if a == axis and ck == "a":
                        a0 = -a0
                    nb[ck] = unarr(a0)
            bc[s] = nb
    big["bc"] = bc
    return big, {"kind": "mirror", "axis": axis + 1}


PAIR_KINDS = [f"extrude:{a}->{b}@{p}" for a, b, p in EXTRUSIONS] + \
    ["permute:Grid2D", "permute:Grid3D", "mirror:Grid1D", "mirror:Grid2D", "mirror:Grid3D",
     "shift:Grid1D", "shift:Grid2D", "shift:Grid3D"]


def shift(rng, cls, nmax):
    """Cartesian grid with a uniform periodic axis; the image has all data shifted cyclically along it"""
    np = drive.np()
    d = drive.dim(cls)
    for _ in range(200):
        small = solvedrive.gen_solve_config(rng, cls, nmax=max(nmax, 2), allow_periodic=False)
        axis = rng.randrange(d)
        f = [dec(q) for q in small["faces"][axis]]
        n = len(f) - 1
        if n >= 2:
            break
    h = rng.choice([Fr(1), Fr(2), Fr(1, 2)])
    small["faces"][axis] = [enc(k * h) for k in range(n + 1)]        # uniform along the periodic axis
    lo, hi = SIDES[axis]
    small["bc"][lo]["periodic"] = small["bc"][hi]["periodic"] = True
    by = rng.randrange(1, n)

    def wrap_full(a):          # ghost layers of the periodic axis = periodic images
        a = a.copy()
        idx_lo = [slice(None)] * a.ndim; idx_hi = [slice(None)] * a.ndim
        src_lo = [slice(None)] * a.ndim; src_hi = [slice(None)] * a.ndim
        idx_lo[axis] = 0; src_lo[axis] = n
        idx_hi[axis] = n + 1; src_hi[axis] = 1
        a[tuple(idx_lo)] = a[tuple(src_lo)]
        a[tuple(idx_hi)] = a[tuple(src_hi)]
        return a

    def periodic_face(a):      # one physical face = one coefficient
        a = a.copy()
        idx = [slice(None)] * a.ndim; src = [slice(None)] * a.ndim
        idx[axis] = n; src[axis] = 0
        a[tuple(idx)] = a[tuple(src)]
        return a
    for key in ("phi", "xstar", "xstar2"):
        small[key] = unarr(wrap_full(arr(small[key])))
    for key in ("D", "u", "uup"):
        small[key][axis] = unarr(periodic_face(arr(small[key][axis])))
    # the boundary data c of the other sides were derived from the un-wrapped targets: derive them again
    fix_c(small)
    big = copy.deepcopy(small)

    def roll_int(a):
        return np.roll(a, by, axis=axis)

    def roll_full(a):
        inner = [slice(None)] * a.ndim
        inner[axis] = slice(1, n + 1)
        b = a.copy()
        b[tuple(inner)] = np.roll(a[tuple(inner)], by, axis=axis)
        return wrap_full(b)

    def roll_face(a):
        first = [slice(None)] * a.ndim
        first[axis] = slice(0, n)
        b = a.copy()
        b[tuple(first)] = np.roll(a[tuple(first)], by, axis=axis)
        return periodic_face(b)
    for key in ("beta", "gamma", "alpha", "old", "old2"):
        big[key] = unarr(roll_int(arr(small[key])))
    for key in ("phi", "xstar", "xstar2"):
        big[key] = unarr(roll_full(arr(small[key])))
    for key in ("D", "u", "uup"):
        comps = []
        for a in range(d):
            a0 = arr(small[key][a])
            comps.append(unarr(roll_face(a0) if a == axis else np.roll(a0, by, axis=axis)))
        big[key] = comps
    for a in range(d):
        if a == axis:
            continue
        trans = [b for b in range(d) if b != a]
        for s_ in SIDES[a]:
            for ck in ("a", "b", "c", "c2"):
                a0 = arr(small["bc"][s_][ck])
                if a0.ndim == len(trans):
                    big["bc"][s_][ck] = unarr(np.roll(a0, by, axis=trans.index(axis)))
    return small, big, {"kind": "shift", "axis": axis + 1, "by": by}


def fix_c(cfg):
    """re-derive the boundary data c, c2 of a solver configuration from its (modified) targets"""
    import itertools as it
    dims = opsdrive.dims_of(cfg)
    d = len(dims)
    for key, ckey in (("xstar", "c"), ("xstar2", "c2")):
        xs = arr(cfg[key])
        for a in range(d):
            faces = [dec(q) for q in cfg["faces"][a]]
            for s_, high in ((SIDES[a][0], False), (SIDES[a][1], True)):
                dend = (faces[-1] - faces[-2]) if high else (faces[1] - faces[0])
                av = arr(cfg["bc"][s_]["a"]); bv = arr(cfg["bc"][s_]["b"])
                shp = trans_shape(dims, a)
                others = [b for b in range(d) if b != a]
                out = drive.np().empty(shp, dtype=object)
                for ix in it.product(*[range(n) for n in shp]):
                    P = [1] * d
                    P[a] = dims[a] if high else 1
                    for k, b in enumerate(others):
                        P[b] = ix[k] + 1
                    g = list(P); g[a] = dims[a] + 1 if high else 0
                    aa = av.reshape(shp)[ix]; bb = bv.reshape(shp)[ix]
                    q = aa / (opsdrive.gscale(cfg, a, P) * dend)
                    hi_v = xs[tuple(g)] if high else xs[tuple(P)]
                    lo_v = xs[tuple(P)] if high else xs[tuple(g)]
                    out[ix] = (bb / 2 + q) * hi_v + (bb / 2 - q) * lo_v
                cfg["bc"][s_][ckey] = unarr(out)


def gen(rng, kind, nmax=2, **kw):
    """a pair (small, big, map) of the given kind; the pair is carried by the small configuration"""
    mode, rest = kind.split(":")
    if mode == "extrude":
        small_cls, tail = rest.split("->")
        big_cls, pos = tail.split("@")
        small = solvedrive.gen_solve_config(rng, small_cls, nmax=nmax, allow_periodic=True)
        big, tr = extrude(rng, small, big_cls, int(pos))
    elif mode == "permute":
        small = solvedrive.gen_solve_config(rng, rest, nmax=nmax, allow_periodic=True)
        d = drive.dim(rest)
        perm = rng.choice([p for p in itertools.permutations(range(d)) if list(p) != list(range(d))])
        big, tr = permute(small, list(perm))
    elif mode == "shift":
        small, big, tr = shift(rng, rest, nmax)
    else:
        small = solvedrive.gen_solve_config(rng, rest, nmax=nmax, allow_periodic=True)
        big, tr = mirror(small, rng.randrange(drive.dim(rest)))
    small["big"] = big
    small["tr"] = tr
    small["label"] = kind
    return small


OUT = ["Mdiff", "Mconv", "Mup", "ghost", "tvdnamed"]


def observe(cfg, want):
    P, np = drive.pf(), drive.np()
    big = cfg["big"]
    obs = opsdrive.observe(cfg, OUT)
    obs["B"] = opsdrive.observe(big, OUT)
    # solver clause (forward): data of the small problem mapped to the big grid
    s1 = solvedrive.observe(cfg, [])
    if s1.get("skipped"):
        obs["solve_skipped"] = True
        return obs
    if any(q[1] == 0 for q in opsdrive._flat_pairs(s1["gamma"])):
        obs["solve_skipped"] = True          # the derived source is not a small rational: not decided exactly
        return obs
    obs["r_solve"] = s1["r_solve"]
    gam_small = opsdrive.to_float_array(s1["gamma"])
    tr = cfg["tr"]
    if tr["kind"] == "extrude":
        gam_big = np.repeat(np.expand_dims(gam_small, tr["pos"] - 1), tr["n"], axis=tr["pos"] - 1)
    elif tr["kind"] == "permute":
        gam_big = np.transpose(gam_small, [p - 1 for p in tr["perm"]])
    elif tr["kind"] == "shift":
        gam_big = np.roll(gam_small, tr["by"], axis=tr["axis"] - 1)
    else:
        gam_big = np.flip(gam_small, axis=tr["axis"] - 1)
    with warnings.catch_warnings(), np.errstate(all="ignore"), contextlib.redirect_stdout(io.StringIO()):
        warnings.simplefilter("ignore")
        c = opsdrive.build(big)
        d = len(c.dims)
        dt = float(dec(big["dt"]))
        alpha_arr = opsdrive.to_float_array(big["alpha"])
        alpha = float(alpha_arr.ravel()[0]) if big["alpha_scalar"] else P.CellVariable(c.m, alpha_arr)
        old = opsdrive.to_float_array(big["old"])
        v = P.CellVariable(c.m, old.copy(), solvedrive.bc_with(big, "c", c.m, d))
        terms = [P.transientTerm(v, dt, alpha)] + solvedrive.spatial_terms(P, c, big) + \
                [P.constantSourceTerm(P.CellVariable(c.m, gam_big))]
        P.solvePDE(v, terms)
        cond = float(s1["cond"])
        tol_c = max(lift.TOL, 2e-14 * cond)
        q_c = max(64, min(lift.QMAX, int((1e-6 / (0.61 * tol_c)) ** 0.5)))
        obs["B"]["r_solve"] = lift.lift_array(np.asarray(v._value), tol=tol_c, qmax=q_c)[0]
    return obs
