"""C17 driver: the same configuration in two unit systems, and coefficient-linearity triples."""
import copy
import random
from fractions import Fraction as Fr

import drive
import opsdrive
import solvedrive
from opsdrive import dec, enc, _map

SCALES = [Fr(1, 10), Fr(1, 2), Fr(2), Fr(3), Fr(10)]


def scale_config(cfg, L, T, K):
    """every input rescaled according to its physical dimension"""
    c = copy.deepcopy(cfg)
    cls = cfg["cls"]
    d = drive.dim(cls)
    for a in range(d):
        if not drive.is_angular(cls, a):
            c["faces"][a] = [enc(dec(q) * L) for q in cfg["faces"][a]]
    mul = lambda f: (lambda q: enc(dec(q) * f))
    c["D"] = [_map(x, mul(L * L / T)) for x in cfg["D"]]
    for key in ("u", "uup", "u2"):
        if key in cfg:
            c[key] = [_map(x, mul(L / T)) for x in cfg[key]]
    if "D2" in cfg:
        c["D2"] = [_map(x, mul(L * L / T)) for x in cfg["D2"]]
    c["beta"] = _map(cfg["beta"], mul(1 / T))
    if "beta2" in cfg:
        c["beta2"] = _map(cfg["beta2"], mul(1 / T))
    c["gamma"] = _map(cfg["gamma"], mul(K / T))
    c["dt"] = enc(dec(cfg["dt"]) * T)
    c["phi"] = _map(cfg["phi"], mul(K))
    for key in ("xstar", "xstar2"):
        if key in cfg:
            c[key] = _map(cfg[key], mul(K))
    for key in ("old", "old2"):
        if key in cfg:
            c[key] = _map(cfg[key], mul(K))
    for s, side in cfg["bc"].items():
        c["bc"][s]["a"] = _map(side["a"], mul(L))
        for ck in ("c", "c2"):
            if ck in side:
                c["bc"][s][ck] = _map(side[ck], mul(K))
    return c


def gen(rng, cls, nmax=3, **kw):
    cfg = solvedrive.gen_solve_config(rng, cls, nmax=nmax, allow_periodic=True)
    cfg["L"], cfg["T"], cfg["K"] = (enc(rng.choice(SCALES)) for _ in range(3))
    cfg["mu"] = enc(rng.choice([Fr(-1), Fr(2), Fr(1, 2)]))
    cfg["dec"] = [rng.randint(-6, 6) for _ in range(3)]          # decades for L, T, K
    if sum(cfg["dec"]) % 3 == 0:
        # a third of the episodes sit in a corner of the decade box (L and T at opposite ends: velocities and
        # diffusivities rescaled by 1e-12 / 1e+12 and 1e-18 / 1e+18), where a hidden absolute threshold compared with a
        # dimensional quantity shows; decided from the numbers already drawn, so the random stream is unchanged
        e = 6 if cfg["dec"][0] >= 0 else -6
        cfg["dec"][0], cfg["dec"][1] = e, -e
    other = opsdrive.gen_config(rng, cls, nmax=nmax)       # only to draw a second set of coefficient fields
    # second coefficient fields on the SAME mesh
    dims = opsdrive.dims_of(cfg)
    d = len(dims)

    def face_field(vals):
        return [opsdrive.nested(opsdrive.face_shape(dims, a), lambda ix: enc(rng.choice(vals))) for a in range(d)]
    cfg["D2"] = face_field([0, 1, 2, 3])
    cfg["u2"] = face_field([-2, -1, 0, 1, 2])
    cfg["beta2"] = opsdrive.nested(dims, lambda ix: enc(rng.choice([0, 1, 2])))
    # an upwind direction without exact zeros keeps the upwind operator linear in u
    cfg["uup"] = face_field([-2, -1, 1, 2])
    return cfg


BASE_OUT = ["volume", "Mdiff", "Mconv", "Mup", "Mupalt", "Msrc", "Rsrc", "Mbc", "Rbc", "ghost", "divu",
            "linmean", "upmean", "grad", "tvdnamed"]


def combo(cfg, key1, key2, lam, mu):
    def comb(a, b):
        if isinstance(a, list) and not (len(a) == 2 and all(isinstance(v, int) for v in a)):
            return [comb(x, y) for x, y in zip(a, b)]
        return enc(lam * dec(a) + mu * dec(b))
    return comb(cfg[key1], cfg[key2])


def raw_outputs(cfg):
    """float outputs (no lifting) of the builders, as flat arrays, for the decade clause"""
    import contextlib, io, warnings
    P, np = drive.pf(), drive.np()
    out = {}
    with opsdrive.surrogate_trig(cfg["aunit"] == "sur"), warnings.catch_warnings(), np.errstate(all="ignore"), \
            contextlib.redirect_stdout(io.StringIO()):
        warnings.simplefilter("ignore")
        c = opsdrive.build(cfg)
        out["Mdiff"] = P.diffusionTerm(c.D).toarray()
        out["Mconv"] = P.convectionTerm(c.u).toarray()
        out["Mup"] = P.convectionUpwindTerm(c.u, c.uup).toarray()
        out["Msrc"] = P.linearSourceTerm(P.CellVariable(c.m, opsdrive.to_float_array(cfg["beta"]))).toarray()
        out["Rsrc"] = np.asarray(P.constantSourceTerm(P.CellVariable(c.m, opsdrive.to_float_array(cfg["gamma"]))))
        Mbc, Rbc = P.boundaryConditionsTerm(c.bc)
        out["Rbc"] = np.asarray(Rbc)
        from pyfvtool.boundary import cellValuesWithBoundaries
        out["ghost"] = np.asarray(cellValuesWithBoundaries(opsdrive.interior(c.phi_full), c.bc))
        out["volume"] = np.asarray(c.m.cellvolume, dtype=float)
        out["divu"] = np.asarray(P.divergenceTerm(c.u))
        phi = P.CellVariable(c.m, c.phi_full.copy())
        out["tvd"] = np.asarray(P.convectionTVDupwindRHSTerm(c.u, phi, P.fluxLimiter("SUPERBEE"), c.uup))
    return out


def observe(cfg, want):
    L, T, K = dec(cfg["L"]), dec(cfg["T"]), dec(cfg["K"])
    obs = opsdrive.observe(cfg, BASE_OUT)
    sc = scale_config(cfg, L, T, K)
    obs["S"] = opsdrive.observe(sc, BASE_OUT)
    s1 = solvedrive.observe(cfg, [])
    s2 = solvedrive.observe(sc, [])
    if s1.get("skipped") or s2.get("skipped"):
        obs["solve_skipped"] = True
    else:
        obs["r_solve"] = s1["r_solve"]
        obs["S"]["r_solve"] = s2["r_solve"]
    # +-6 decades: entries of the rescaled outputs over the original ones must be exact powers of ten
    import math
    np = drive.np()
    kL, kT, kK = cfg["dec"]
    big = scale_config(cfg, Fr(10) ** kL, Fr(10) ** kT, Fr(10) ** kK)
    raw1 = raw_outputs(cfg)
    raw2 = raw_outputs(big)
    decades = {}
    for name in raw1:
        a, b = raw1[name], raw2[name]
        exps = set()
        ok = a.shape == b.shape
        if ok:
            # entries that are pure rounding residue of a cancellation count as zero.  The size of such a residue is
            # set by the terms that cancel, not by what is left: for the advective outputs (whose entries are sums of
            # +-u A/V contributions that cancel exactly for a divergence-free u) the yardstick is the largest entry
            # of the central convection matrix (times the field magnitude for the TVD vector)
            def yard(raw, arr):
                m = float(np.abs(arr).max()) if arr.size else 0.0
                if name in ("Mup", "Mconv", "divu", "tvd"):
                    conv = float(np.abs(raw["Mconv"]).max()) if raw["Mconv"].size else 0.0
                    if name == "tvd":
                        conv *= max(float(np.abs(raw["ghost"]).max()), 1e-300)
                    m = max(m, conv)
                return max(m, 1e-300)
            a = np.where(np.abs(a) <= 1e-12 * yard(raw1, a), 0.0, a)
            b = np.where(np.abs(b) <= 1e-12 * yard(raw2, b), 0.0, b)
            nz = (a != 0) | (b != 0)
            for x, y in zip(a[nz].ravel(), b[nz].ravel()):
                if x == 0 or y == 0 or not np.isfinite(x) or not np.isfinite(y) or (x > 0) != (y > 0):
                    exps.add(9999)
                    continue
                e = round(math.log10(y / x))
                if abs((y / x) / 10.0 ** e - 1.0) > 1e-9:
                    e = 9999
                exps.add(e)
        else:
            exps.add(9999)
        decades[name] = sorted(exps)
    obs["decades"] = decades
    # linearity in the coefficient fields
    lam, mu = dec(cfg["lam"]), dec(cfg["mu"])
    c2 = dict(cfg, D=cfg["D2"], u=cfg["u2"], beta=cfg["beta2"])
    c12 = dict(cfg, D=combo(cfg, "D", "D2", lam, mu), u=combo(cfg, "u", "u2", lam, mu),
               beta=combo(cfg, "beta", "beta2", lam, mu))
    o2 = opsdrive.observe(c2, ["Mdiff", "Mconv", "Mupalt", "Msrc", "tvdnamed"])
    o12 = opsdrive.observe(c12, ["Mdiff", "Mconv", "Mupalt", "Msrc", "tvdnamed"])
    obs["Lin"] = {"tvd2": o2["tvdnamed"], "tvd12": o12["tvdnamed"],
                  "Mdiff2": o2["Mdiff"], "Mdiff12": o12["Mdiff"], "Mconv2": o2["Mconv"], "Mconv12": o12["Mconv"],
                  "Mup2": o2["Mupalt"], "Mup12": o12["Mupalt"], "Msrc2": o2["Msrc"], "Msrc12": o12["Msrc"]}
    return obs
