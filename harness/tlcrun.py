"""Running TLC and reading what it says."""
import atexit
import concurrent.futures as cf
import json
import os
import re
import shutil
import subprocess
import time

VERIF = os.path.dirname(os.path.dirname(os.path.abspath(__file__)))
SPEC = os.path.join(VERIF, "spec")
JAR = "/opt/veriftools/tla/tla2tools.jar:/opt/veriftools/tla/CommunityModules-deps.jar"

_WORK = None


class MachineryError(Exception):
    """the check itself could not run (exit 2) - never a pass, never a finding"""


def work_dir():
    global _WORK
    if _WORK is None:
        _WORK = os.path.join(VERIF, ".work", str(os.getpid()))
        os.makedirs(_WORK, exist_ok=True)
        atexit.register(lambda: shutil.rmtree(_WORK, ignore_errors=True))
    return _WORK


_counter = [0]


def fresh(name):
    _counter[0] += 1
    p = os.path.join(work_dir(), f"{_counter[0]:04d}-{name}")
    return p


_SUMMARY = re.compile(r"(\d+) states generated, (\d+) distinct states found, (\d+) states left on queue")
_SIMSUM = re.compile(r"(\d+) states checked")


def run_tlc(module, cfg, *, env=None, workers=1, timeout=600, simulate=None, depth=None,
            seed=None, coverage=False, heap="3g", extra=(), deadlock=False, cwd=SPEC):
    """run TLC on spec/<module>.tla with spec/<cfg>; returns a dict

    printed : list of python objects parsed from lines  "@@ <json>"  (PrintT of a string)
    states, distinct : integers from TLC's summary line (0 if absent)
    ok : TLC said "No error has been found"
    """
    meta = fresh("meta")
    os.makedirs(meta, exist_ok=True)
    cmd = ["java", "-XX:+UseParallelGC", f"-Xmx{heap}", "-cp", JAR, "tlc2.TLC",
           "-workers", str(workers), "-metadir", meta, "-noGenerateSpecTE",
           "-config", cfg if os.path.isabs(cfg) else os.path.join(cwd, cfg)]
    if not deadlock:
        cmd += ["-deadlock"]
    if simulate:
        cmd += ["-simulate", simulate]
    if depth:
        cmd += ["-depth", str(depth)]
    if seed is not None:
        cmd += ["-seed", str(seed)]
    if coverage:
        cmd += ["-coverage", "1"]
    cmd += list(extra)
    cmd += [module]
    e = dict(os.environ)
    e.pop("JAVA_TOOL_OPTIONS", None)
    if env:
        e.update({k: str(v) for k, v in env.items()})
    t0 = time.time()
    try:
        p = subprocess.run(cmd, cwd=cwd, env=e, capture_output=True, text=True, timeout=timeout)
        out = p.stdout + p.stderr
        rc = p.returncode
        timed_out = False
    except subprocess.TimeoutExpired as ex:
        out = (ex.stdout or b"").decode() if isinstance(ex.stdout, bytes) else (ex.stdout or "")
        rc = -9
        timed_out = True
    shutil.rmtree(meta, ignore_errors=True)
    res = {"rc": rc, "out": out, "wall_s": time.time() - t0, "timed_out": timed_out,
           "states": 0, "distinct": 0, "printed": [], "cmd": " ".join(cmd)}
    for m in _SUMMARY.finditer(out):
        res["states"], res["distinct"] = int(m.group(1)), int(m.group(2))
    if simulate and not res["states"]:
        for m in _SIMSUM.finditer(out):
            res["states"] = res["distinct"] = int(m.group(1))
    res["ok"] = "No error has been found" in out or (simulate is not None and rc == 0 and "Error:" not in out)
    res["printed"] = parse_printed(out)
    return res


def parse_printed(out):
    got = []
    for line in out.splitlines():
        line = line.strip()
        if line.startswith('"@@'):
            try:
                s = json.loads(line)          # TLC prints strings with JSON-compatible escapes
                got.append(json.loads(s[2:].strip()))
            except Exception as ex:           # malformed => machinery failure, not silence
                raise MachineryError(f"cannot parse TLC output line: {line[:200]} ({ex})")
    return got


def tlc_error_excerpt(out, n=25):
    lines = out.splitlines()
    for i, l in enumerate(lines):
        if l.startswith("Error:") or "Exception" in l:
            return "\n".join(lines[i:i + n])
    return "\n".join(lines[-n:])


def run_chunks(module, cfg, items, key, *, chunk=200, par=None, timeout=900, env_key="TRACE_FILE",
               wrap=lambda c: {"episodes": c}, heap="2g"):
    """split `items` into chunk files, validate every chunk with its own TLC process
    (one worker each, `par` processes side by side) and return (verdicts, totals).

    The trace spec prints exactly one "@@ {...}" line per episode carrying `key`;
    a missing verdict is a machinery failure."""
    par = par or min(14, os.cpu_count() or 4)
    chunks = [items[i:i + chunk] for i in range(0, len(items), chunk)]
    files = []
    for k, c in enumerate(chunks):
        f = fresh(f"chunk{k}.json")
        with open(f, "w") as fh:
            json.dump(wrap(c), fh)
        files.append(f)
    tot = {"states": 0, "distinct": 0, "runs": 0, "wall_s": 0.0}
    verdicts = []

    def one(f):
        return run_tlc(module, cfg, env={env_key: f}, workers=1, timeout=timeout, heap=heap)

    with cf.ThreadPoolExecutor(max_workers=par) as ex:
        for f, c, r in zip(files, chunks, ex.map(one, files)):
            if not r["ok"]:
                raise MachineryError(f"TLC failed on {f}:\n{tlc_error_excerpt(r['out'])}")
            if len(r["printed"]) != len(c):
                raise MachineryError(f"TLC printed {len(r['printed'])} verdicts for {len(c)} episodes ({f})")
            verdicts.extend(r["printed"])
            tot["states"] += r["states"]
            tot["distinct"] += r["distinct"]
            tot["runs"] += 1
            tot["wall_s"] += r["wall_s"]
            os.remove(f)
    return verdicts, tot
