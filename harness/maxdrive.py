"""C07 driver: discretely divergence-free velocity fields (exact), M-matrix sign structure,
and direct min/max observation of implicit steps."""
import contextlib
import io
import itertools
import warnings
from fractions import Fraction as Fr

import drive
import lift
import opsdrive
from opsdrive import dec, enc, nested, face_shape, trans_shape, SIDES, sur_sin

KINDS = ["dirichlet", "noflux", "periodic"]


def periodic_systematic(closed=True, seed=0):
    """the periodic family of opsdrive.periodic_systematic_configs (each periodic-capable axis periodic, the other
    axes with pairwise different end-cell ratios) as closed transport problems with divergence-free velocities"""
    import random as _r
    out = []
    for base in opsdrive.periodic_systematic_configs(False, seed):
        cls = base["cls"]
        pa = [a for a in range(drive.dim(cls)) if any(base["bc"][s]["periodic"] for s in SIDES[a])]
        rng = _r.Random(hash((seed, cls, tuple(pa), str(base["bc"][SIDES[pa[0]][0]]["periodic"]), str(base["bc"][SIDES[pa[0]][1]]["periodic"]))) & 0xffffffff)
        lo_, hi_ = SIDES[pa[0]]
        flag = "both" if base["bc"][lo_]["periodic"] and base["bc"][hi_]["periodic"] else \
            ("lo" if base["bc"][lo_]["periodic"] else "hi")
        cfg = gen(rng, cls, closed=closed, faces_override=[[dec(q) for q in f] for f in base["faces"]],
                  force_periodic=set(pa))
        # the flag of the pair may sit on either side alone (the other side then carries its default a, b, c)
        if flag != "both":
            cfg["bc"][hi_ if flag == "lo" else lo_]["periodic"] = False
        cfg["systematic"] = "periodic"
        out.append(cfg)
    return out


def gen(rng, cls, nmax=3, closed=False, faces_override=None, force_periodic=None, **kw):
    cfg = opsdrive.gen_config(rng, cls, nmax=nmax, allow_periodic=False, faces_override=faces_override)
    d = drive.dim(cls)
    faces = [[dec(q) for q in f] for f in cfg["faces"]]
    dims = [len(f) - 1 for f in faces]
    full = [n + 2 for n in dims]
    # boundary kinds per axis
    kinds = {}
    for a in range(d):
        lab = drive.AXIS_LABELS[cls][a]
        uni = (faces[a][1] - faces[a][0]) == (faces[a][-1] - faces[a][-2])
        per = lab != "r" and not (cls == "SphericalGrid3D" and lab == "theta") and uni and rng.random() < 0.3
        if force_periodic is not None:
            per = a in force_periodic
        if per:
            kinds[SIDES[a][0]] = kinds[SIDES[a][1]] = "periodic"
        else:
            for s in SIDES[a]:
                kinds[s] = "noflux" if closed else rng.choice(["dirichlet", "noflux"])
    # a face at r = 0 (or at a pole of the surrogate sphere) carries no flux: treat like a wall
    wall = {s: kinds[s] == "noflux" for s in kinds}
    if faces[0][0] == 0 and drive.AXIS_LABELS[cls][0] == "r":
        wall["left"] = True
    if cls == "SphericalGrid3D":
        if sur_sin(faces[1][0]) == 0:
            wall["bottom"] = True
        if sur_sin(faces[1][-1]) == 0:
            wall["top"] = True
    cen = [[(f[i] + f[i + 1]) / 2 for i in range(len(f) - 1)] for f in faces]
    siz = [[f[i + 1] - f[i] for i in range(len(f) - 1)] for f in faces]
    u = [None] * d
    if d == 1:
        lab = drive.AXIS_LABELS[cls][0]
        q = Fr(0) if (wall["left"] or wall["right"]) else Fr(rng.choice([-2, -1, 1, 2]))
        power = {"Grid1D": 0, "CylindricalGrid1D": 1, "SphericalGrid1D": 2}[cls]
        u[0] = [enc(q / (faces[0][j] ** power) if (faces[0][j] != 0 or power == 0) else 0) for j in range(dims[0] + 1)]
    else:
        nx, ny = dims[0], dims[1]
        # stream function on the (nx+1) x (ny+1) nodes of the (1,2)-plane; periodic axes wrap
        psi = [[Fr(rng.choice([-2, -1, 0, 1, 2])) for _ in range(ny + 1)] for _ in range(nx + 1)]
        if kinds[SIDES[0][0]] == "periodic":
            for j in range(ny + 1):
                psi[nx][j] = psi[0][j]
        if kinds[SIDES[1][0]] == "periodic":
            for i in range(nx + 1):
                psi[i][ny] = psi[i][0]
        # walls: constant psi along the wall  =>  zero normal velocity (corner values are shared)
        for i in range(nx + 1):
            for j in range(ny + 1):
                if (i == 0 and wall["left"]) or (i == nx and wall["right"]) or \
                   (j == 0 and wall["bottom"]) or (j == ny and wall["top"]):
                    psi[i][j] = Fr(0)
        # a wall on one side of a periodic axis forces the wrapped copy to zero as well
        if kinds[SIDES[0][0]] == "periodic":
            for j in range(ny + 1):
                if psi[0][j] != psi[nx][j]:
                    psi[0][j] = psi[nx][j] = Fr(0)
        if kinds[SIDES[1][0]] == "periodic":
            for i in range(nx + 1):
                if psi[i][0] != psi[i][ny]:
                    psi[i][0] = psi[i][ny] = Fr(0)
        fam = "cart" if cls in ("Grid2D", "Grid3D") else "cylrz" if cls == "CylindricalGrid2D" else \
            "sph" if cls == "SphericalGrid3D" else "polar"

        def u1(i, j):      # face i of axis 1, cell j of axis 2
            dps = psi[i][j + 1] - psi[i][j]
            rf = faces[0][i]
            if fam == "cart":
                return dps / siz[1][j]
            if rf == 0:
                return Fr(0)
            if fam in ("cylrz", "polar"):
                return dps / (rf * siz[1][j])
            return dps / (rf * rf * sur_sin(cen[1][j]) * siz[1][j])

        def u2(i, j):      # cell i of axis 1, face j of axis 2
            dps = psi[i + 1][j] - psi[i][j]
            if fam == "cart":
                return -dps / siz[0][i]
            if fam == "cylrz":
                return -dps / (cen[0][i] * siz[0][i])
            if fam == "polar":
                return -dps / siz[0][i]
            sf = sur_sin(faces[1][j])
            return Fr(0) if sf == 0 else -dps / (sf * cen[0][i] * siz[0][i])
        if d == 2:
            u[0] = nested(face_shape(dims, 0), lambda ix: enc(u1(ix[0], ix[1])))
            u[1] = nested(face_shape(dims, 1), lambda ix: enc(u2(ix[0], ix[1])))
        else:
            per3 = kinds[SIDES[2][0]] == "periodic"
            w = [[Fr(0) if (wall["back"] or wall["front"]) else Fr(rng.choice([-1, 0, 1])) for _ in range(ny)]
                 for _ in range(nx)]
            u[0] = nested(face_shape(dims, 0), lambda ix: enc(u1(ix[0], ix[1])))
            u[1] = nested(face_shape(dims, 1), lambda ix: enc(u2(ix[0], ix[1])))
            u[2] = nested(face_shape(dims, 2), lambda ix: enc(w[ix[0]][ix[1]]))
    cfg["u"] = u
    cfg["uup"] = u
    # boundary conditions of the three admissible kinds
    bc = {}
    for a in range(d):
        for s in SIDES[a]:
            shp = trans_shape(dims, a)
            k = kinds[s]
            if k == "dirichlet":
                bc[s] = {"a": nested(shp, lambda ix: enc(0)), "b": nested(shp, lambda ix: enc(1)),
                         "c": nested(shp, lambda ix: enc(rng.choice([0, 1, 2, 3]))), "periodic": False}
            else:
                bc[s] = {"a": nested(shp, lambda ix: enc(1)), "b": nested(shp, lambda ix: enc(0)),
                         "c": nested(shp, lambda ix: enc(0)), "periodic": k == "periodic"}
            bc[s]["kind"] = k
    cfg["bc"] = bc
    Dn = [nested(face_shape(dims, a), lambda ix: enc(rng.choice([0, 1, 3, 1000]))) for a in range(d)]
    for a in range(d):        # one physical face = one coefficient: face N repeats face 0 on periodic axes
        if kinds[SIDES[a][0]] == "periodic":
            for ix in itertools.product(*[range(n) for n in face_shape(dims, a)]):
                if ix[a] == dims[a]:
                    src = list(ix); src[a] = 0
                    t = Dn[a]; q = Dn[a]
                    for k in src[:-1]:
                        q = q[k]
                    val = q[src[-1]]
                    for k in ix[:-1]:
                        t = t[k]
                    t[ix[-1]] = val
    cfg["D"] = Dn
    cfg["beta"] = nested(dims, lambda ix: enc(rng.choice([0, 0, 1, 2])))
    cfg["phi"] = nested(full, lambda ix: enc(rng.choice([0, 1, 2, 3])))
    cfg["closed_system"] = bool(closed)
    cfg["const"] = enc(rng.choice([-2, 1, 3]))
    return cfg


def observe(cfg, want):
    P, np = drive.pf(), drive.np()
    obs = opsdrive.observe(cfg, ["Mdiff", "Mup", "divu", "Msrc"])
    # direct observation: implicit steps over 8 decades of dt, 3 steps each, random non-negative data
    steps = []
    with opsdrive.surrogate_trig(cfg["aunit"] == "sur"), warnings.catch_warnings(), \
            np.errstate(all="ignore"), contextlib.redirect_stdout(io.StringIO()):
        warnings.simplefilter("ignore")
        c = opsdrive.build(cfg)
        d = len(c.dims)
        beta = opsdrive.to_float_array(cfg["beta"])
        has_sink = bool((beta > 0).any())
        dir_vals = []
        for a in range(d):
            for s in SIDES[a]:
                if cfg["bc"][s]["kind"] == "dirichlet":
                    dir_vals += list(opsdrive.to_float_array(cfg["bc"][s]["c"]).ravel())
        rs = np.random.RandomState(abs(hash(str(cfg["faces"]))) % (2 ** 31))
        for k, dt in enumerate([1e-4, 1e-3, 1e-2, 1e-1, 1.0, 1e1, 1e2, 1e4]):
            v = P.CellVariable(c.m, rs.randint(0, 4, size=tuple(c.dims)).astype(float), opsdrive.make_bc(c.m, cfg["bc"], d))
            for it in range(3):
                old = np.array(v.value, copy=True)
                terms = [P.transientTerm(v, dt, 1.0), -P.diffusionTerm(c.D), P.convectionUpwindTerm(c.u),
                         P.linearSourceTerm(P.CellVariable(c.m, beta))]
                P.solvePDE(v, terms)
                new = np.asarray(v.value)
                lo = min([old.min()] + dir_vals + ([0.0] if has_sink else []))
                hi = max([old.max()] + dir_vals + ([0.0] if has_sink else []))
                fin = bool(np.all(np.isfinite(new)))
                fp = lambda x: int(round(float(x) * 1e6)) if np.isfinite(x) and abs(x) < 2000 else 0
                steps.append({"dt_exp": k, "finite": fin, "lo": fp(lo), "hi": fp(hi),
                              "mn": fp(new.min()) if fin else 0, "mx": fp(new.max()) if fin else 0})
        # C06: a uniform field with matching boundary values is a steady state for every dt, alpha
        cval = float(dec(cfg["const"]))
        bcj = {s: dict(v) for s, v in cfg["bc"].items()}
        for s in bcj:
            if bcj[s]["kind"] == "dirichlet":
                bcj[s]["c"] = opsdrive._map(bcj[s]["c"], lambda q: enc(dec(cfg["const"])))
        steady = {}
        for name, conv in (("central", P.convectionTerm), ("upwind", P.convectionUpwindTerm)):
            v = P.CellVariable(c.m, cval, opsdrive.make_bc(c.m, bcj, d))
            FL = P.fluxLimiter("SUPERBEE")
            terms = [P.transientTerm(v, float(dec(cfg["dt"])), P.CellVariable(c.m, opsdrive.to_float_array(cfg["alpha"]))),
                     -P.diffusionTerm(c.D), conv(c.u)]
            if name == "upwind":
                terms.append(P.convectionTVDupwindRHSTerm(c.u, v, FL))
            P.solvePDE(v, terms)
            steady[name] = lift.lift_array(np.asarray(v.value), tol=1e-9, qmax=40)[0]
            far_ = obs.setdefault("_far", {})
            dev_ = np.abs(np.asarray(v.value, dtype=float) - cval)
            far_["steady"] = bool(far_.get("steady", False) or not np.all(np.isfinite(dev_))
                                  or np.any(dev_ > 1e-6 * max(1.0, abs(cval))))
        obs["steady"] = steady
        # C01: closed system (no-flux walls with zero normal velocity / periodic): domainIntegral is invariant
        if cfg.get("closed_system"):
            import math
            e = {"CylindricalGrid1D": 1, "SphericalGrid1D": 1, "CylindricalGrid2D": 1, "SphericalGrid3D": -1}.get(cfg["cls"], 0)
            integ = {}
            periodic_any = any(v["periodic"] for v in cfg["bc"].values())
            for name in ("implicit_central", "implicit_upwind", "explicit", "explicit_update"):
                v = P.CellVariable(c.m, interior_ints(cfg, c), opsdrive.make_bc(c.m, cfg["bc"], d))
                seq = [v.domainIntegral()]
                for it in range(3):
                    if name == "explicit":
                        rhs = P.divergenceTerm(c.D * P.gradientTerm(v)) - P.divergenceTerm(c.u * P.linearMean(v))
                        v = P.solveExplicitPDE(v, 0.001, rhs)
                    elif name == "explicit_update":
                        # the loop style of the repository's own explicit example: the old variable is kept and
                        # refreshed with update_value()
                        rhs = P.divergenceTerm(c.D * P.gradientTerm(v)) - P.divergenceTerm(c.u * P.linearMean(v))
                        vnew = P.solveExplicitPDE(v, 0.001, rhs)
                        v.update_value(vnew)
                    else:
                        conv = P.convectionTerm(c.u) if name == "implicit_central" else P.convectionUpwindTerm(c.u)
                        P.solvePDE(v, [P.transientTerm(v, 0.5, 1.0), -P.diffusionTerm(c.D), conv])
                    seq.append(v.domainIntegral())
                integ[name] = [lift.lift_enc(x / math.pi ** e, tol=1e-11, qmax=400) for x in seq]
                # an unliftable later integral decides the clause only if it is FAR from the initial one
                far = obs.setdefault("_far", {})
                far["integrals"] = bool(far.get("integrals", False) or any(
                    not math.isfinite(x) or abs(x - seq[0]) > 1e-7 * max(1.0, abs(seq[0])) for x in seq))
                if integ[name][0][1] == 0:
                    integ[name] = []      # the initial integral itself is not a small rational: nothing to compare with
            obs["integrals"] = integ
            obs["periodic_any"] = periodic_any
    obs["steps"] = steps
    return obs


def interior_ints(cfg, c):
    np = drive.np()
    return opsdrive.interior(opsdrive.to_float_array(cfg["phi"])).copy()
