"""Shared runner of the numeric-layer checks (C01, C03, C05, C06, ...)."""
import random

import drive
import opsdrive
import tlcrun
from findings import canon_hash

# clause -> observed outputs it needs
NEEDS = {
    "C05_Diffusion": ["Mdiff", "chain_diff"], "C05_Central": ["Mconv", "chain_conv"],
    "C05_Upwind": ["Mup", "chain_up"], "C05_UpwindAlt": ["Mupalt", "chain_upalt"],
    "C06_DiffConst": ["Mdiff"], "C06_CentralConst": ["Mconv", "divu"], "C06_UpwindConst": ["Mup", "divu"],
    "C06_UpwindAltConst": ["Mupalt", "divu"], "C06_SourceDiag": ["Msrc"], "C06_SourceVec": ["Rsrc"], "C06_SourceSolve": ["r_source"],
    "C01_ClosedDiffusion": ["Mdiff", "volume"], "C01_ClosedCentral": ["Mconv", "volume"],
    "C01_ClosedUpwind": ["Mup", "volume"], "C01_ClosedDivergence": ["divu", "volume"],
    "C03_Robin": ["ghost"], "C03_Periodic": ["ghost"], "C03_InteriorKept": ["ghost"],
    "C03_RowsSatisfied": ["ghost", "Mbc", "Rbc"], "C03_RowsEncodeRobin": ["Mbc", "Rbc"],
    "C03_RowsOnGhostOnly": ["Mbc", "Rbc"], "C03_ScaleInvariant": ["ghost", "Mbc", "Rbc", "ghostS"],
    "C03_CtorForms": ["f_ctor"], "C03_RobinCtor": ["f_ctor"], "C03_RobinApply": ["f_apply"], "C03_RobinSolve": ["f_solve"],
    "C03_RobinExplicit": ["f_explicit"], "C03_PeriodicCtor": ["f_ctor"], "C03_PeriodicApply": ["f_apply"],
    "C03_PeriodicSolve": ["f_solve"], "C03_PeriodicExplicit": ["f_explicit"], "C03_InteriorKeptCtor": ["f_ctor"],
    "C03_SolveRowsSatisfied": ["f_solve", "Mbc", "Rbc"], "C03_PlotProfile": ["f_solve", "profile"],
    "C01_OpenDiffusion": ["Mdiff", "grad", "volume"], "C01_OpenCentral": ["Mconv", "linmean", "volume"],
    "C01_OpenUpwind": ["Mup", "upmean", "volume"],
    "C01_ClosedDiffusionMid": ["Mdiff"], "C01_ClosedCentralMid": ["Mconv"], "C01_ClosedUpwindMid": ["Mup"],
    "C01_ClosedDivergenceMid": ["divu"], "C01_PeriodicDiffusion": ["Mdiff", "volume"],
    "C01_PeriodicCentral": ["Mconv", "volume"], "C01_PeriodicUpwind": ["Mup", "volume"],
    "C05_TvdZero": ["tvd0"], "C05_TvdUnit": ["Mupalt", "Mconv", "tvd1"],
    "C13_TvdFinite": ["tvdnamed"], "C13_TvdInterior": ["tvdnamed"], "C13_TvdFormula": ["tvdnamed"],
    "C06_TvdConst": ["tvdconst"], "C01_ClosedTvd": ["tvdnamed", "volume"], "C01_ClosedTvdMid": ["tvdnamed"],
    "C11_Linear": ["linmean"], "C11_Arithmetic": ["arithmean"], "C11_Harmonic": ["harmmean"],
    "C11_Upwind": ["upmean"], "C11_UpwindRepeat": ["upmean"], "C11_Geometric": ["geomean"],
    "C11_Between": ["linmean", "arithmean", "harmmean", "geomean", "upmean"],
    "C11_Ordering": ["harmmean", "geomean", "arithmean"], "C11_Constants": ["constmeans"],
    "C11_LinearExact": ["linmean_linear"],
    "X_CellLocations": ["celllocs"], "X_FaceLocations": ["facelocs"], "X_GradFixedBC": ["gradfixed"],
    "X_FaceCtorScalar": ["facector_scalar"], "X_FaceCtorTuple": ["facector_scalar"], "X_Utility": ["utility"],
    "X_Integral": ["integral", "volume"],
    "X_MeshIndex": ["meshindex"],
    "X_BuilderForms": ["builderforms"],
    "C11_Homogeneous": ["meanflags"], "C11_InputForms": ["meanflags"],
    "C06_SourceForms": ["srcforms"],
    "C04_DiffInterior": ["Mdiff"], "C04_ConvInterior": ["Mconv"], "C04_UpInterior": ["Mup"],
}
# observed outputs that have a reference counterpart (conformance tripwire)
CONFORMABLE = {"tvd1", "Mdiff", "Mconv", "Mup", "Mupalt", "ghost", "Mbc", "Rbc", "grad", "divu", "linmean",
               "arithmean", "harmmean", "upmean", "Msrc", "Rsrc"}


SOLVE_CLAUSES = {"C04_Solves", "C04_SameObject", "C04_SameAsMatrixPDE", "C04_ExternalSolver", "C04_Variants",
                 "C04_Linear", "C04_Assembly", "C12_Residual", "C12_History", "C12_HistoryPeriodic", "C12_HistoryAlpha", "C12_Retry", "C12_Limits", "C12_FixedPoint", "C12_ExplicitStep",
                 "C12_ExplicitBCs", "C12_InputUntouched", "C12_ExplicitUsable", "C03_SolvedRobin"}
for _c in SOLVE_CLAUSES:
    NEEDS[_c] = []


# which observed outputs a solver clause reads (an unliftable value in one of them makes a FAILING verdict
# undecided) ...
UNKNOWN_SCOPE = {
    "C03_CtorForms": ["f_ctor_forms"],
    "C04_Solves": ["r_solve"], "C04_SameObject": ["flags"], "C04_SameAsMatrixPDE": ["r_solve", "r_matrix"],
    "C04_ExternalSolver": ["Mext", "Mhand", "Rext", "Rhand", "r_ext"], "C04_Variants": ["r_variants"],
    "C04_Linear": ["r_solve", "r_solve2", "r_sum"],
    "C04_Assembly": ["Mhand", "Rhand", "Mbc", "Rbc", "Aspatial", "gamma"],
    "C12_Residual": ["Aspatial", "gamma", "r_solve"], "C12_History": ["r_history"],
    "C12_HistoryPeriodic": ["r_history_per"], "C12_HistoryAlpha": ["r_history_alpha"], "C12_Retry": ["flags", "r_retry"], "C12_Limits": ["limits"], "C12_FixedPoint": ["r_fixed"],
    "C12_ExplicitStep": ["dt_explicit", "in_explicit", "rhs_explicit", "r_explicit"],
    "C12_ExplicitBCs": ["r_explicit"], "C12_InputUntouched": ["flags"],
    "C12_ExplicitUsable": ["flags", "r_after_explicit"], "C03_SolvedRobin": ["r_solve"],
    "C07_Premise": ["divu"], "C07_SignStructure": ["Mdiff", "Mup", "Msrc"], "C07_Hull": ["steps"],
    "C06_Steady": ["steady"],
    "C01_ClosedStepCentral": ["integrals"], "C01_ClosedStepUpwind": ["integrals"], "C01_ClosedStepExplicit": ["integrals"],
    "C01_ClosedStepExplicitUpdate": ["integrals"],
    "C08_Geometry": ["none"], "C08_Diffusion": ["Mdiff", "B.Mdiff"], "C08_Central": ["Mconv", "B.Mconv"],
    "C08_Upwind": ["Mup", "B.Mup"], "C08_Ghost": ["ghost", "B.ghost"], "C08_Tvd": ["tvdnamed", "B.tvdnamed"],
    "C08_Solve": ["r_solve", "B.r_solve"],
    "C17_solution": ["r_solve", "S.r_solve"], "C17_Decades": ["decades"],
    "C17_LinearDiff": ["Mdiff", "Lin.Mdiff2", "Lin.Mdiff12"], "C17_LinearConv": ["Mconv", "Lin.Mconv2", "Lin.Mconv12"],
    "C17_LinearUp": ["Mupalt", "Lin.Mup2", "Lin.Mup12"], "C17_LinearSrc": ["Msrc", "Lin.Msrc2", "Lin.Msrc12"],
    "C17_tvd": ["tvdnamed", "S.tvdnamed"], "C17_LinearTvd": ["tvdnamed", "Lin.tvd2", "Lin.tvd12"],
}
for _o in ("Mdiff", "Mconv", "Mup", "Mupalt", "Msrc", "Rsrc", "Mbc", "Rbc", "ghost", "divu", "volume", "linmean",
           "upmean", "grad"):
    UNKNOWN_SCOPE["C17_" + _o] = [_o, "S." + _o]
# ... except where the output is compared, entry by entry, with an exact small-rational TARGET of the
# configuration (x* is integer-valued): a finite value that is not within the lifting tolerance of ANY small
# rational is in particular different from the target.  The clause is decided (failing) when the observer has in
# addition certified, in floating point, that the output is FAR from its target (obs["_far"][output]: more than
# 1e-6 relative, beyond what rounding can do at the admitted condition numbers); a near miss stays undecided
TARGETED = {
    "C04_Solves": ["r_solve"], "C04_Variants": ["r_variants"], "C12_History": ["r_history"],
    "C12_HistoryPeriodic": ["r_history_per"], "C12_HistoryAlpha": ["r_history_alpha"], "C12_Retry": ["r_retry"], "C12_FixedPoint": ["r_fixed"],
    "C12_ExplicitUsable": ["r_after_explicit"], "C04_ExternalSolver": ["r_ext"],
    "C06_Steady": ["steady"],
    # later integrals are compared with the first one, the integral of the small-rational initial data (always
    # liftable, else the sequence is dropped): an unliftable later value differs from it
    "C01_ClosedStepCentral": ["integrals"], "C01_ClosedStepUpwind": ["integrals"], "C01_ClosedStepExplicit": ["integrals"],
    "C01_ClosedStepExplicitUpdate": ["integrals"],
}


def make_episodes(configs, clauses_for, extra_conform=(), observe=None):
    eps = []
    for k, cfg in enumerate(configs):
        wanted = clauses_for(cfg)
        want = sorted({o for cl in wanted for o in NEEDS[cl]} | set(extra_conform))
        obs = (observe or opsdrive.observe)(cfg, want)
        if obs.get("skipped"):
            eps.append({"id": k, "cfg": cfg, "obs": obs, "wanted": [], "conform": [], "skipped": obs["skipped"]})
            continue
        if "r_fixed" not in obs:
            wanted = [w for w in wanted if w != "C12_FixedPoint"]
        if "r_history_per" not in obs:
            wanted = [w for w in wanted if w != "C12_HistoryPeriodic"]
        if "r_history_alpha" not in obs:
            wanted = [w for w in wanted if w != "C12_HistoryAlpha"]
        if obs.get("solve_skipped"):
            wanted = [w for w in wanted if w not in ("C17_solution", "C08_Solve")]
        conform = sorted((set(want) | set(extra_conform)) & CONFORMABLE & set(obs))
        eps.append({"id": k, "cfg": cfg, "obs": obs, "wanted": sorted(wanted), "conform": conform})
    return eps


def validate(episodes, chunk=40, timeout=1800):
    verdicts, tot = tlcrun.run_chunks("FVTraceOps.tla", "FVTraceOps.cfg", episodes, "ep", chunk=chunk,
                                      timeout=timeout)
    return {v["ep"]: v for v in verdicts}, tot


def gen_configs(seed, n_per_class, classes=None, generator=None, **kw):
    rng = random.Random(seed)
    out = []
    for cls in classes or drive.CLASSES:
        for _ in range(n_per_class):
            out.append((generator or opsdrive.gen_config)(rng, cls, **kw))
    return out


def nontrivial_hash(cfg):
    return canon_hash({k: cfg[k] for k in ("cls", "faces", "D", "u", "bc", "phi")})


def uup_zero_flag(cfg):
    """does the explicit upwind-direction field vanish exactly on a face where u does not?"""
    def flat(n):
        if isinstance(n, list) and not (len(n) == 2 and all(isinstance(v, int) for v in n)):
            for v in n:
                yield from flat(v)
        else:
            yield n
    return any(b[0] == 0 and a[0] != 0
               for ca, cb in zip(cfg["u"], cfg["uup"]) for a, b in zip(flat(ca), flat(cb)))


def outputs_with_unknown(obs):
    """names of the observed outputs that contain an unliftable finite value ([1, 0])"""
    def has(x):
        if isinstance(x, opsdrive.Entries):         # [row cell, col cell, value]: only the value can be a marker
            return any(e[2] == [1, 0] for e in x)
        if isinstance(x, list):
            if len(x) == 2 and x[0] == 1 and x[1] == 0:
                return True
            return any(has(v) for v in x)
        if isinstance(x, dict):
            return any(has(v) for v in x.values())
        return False
    out = set()
    for k, v in obs.items():
        if k == "meshindex" or not has(v):
            continue
        out.add(k)
        if isinstance(v, dict):          # one level of nesting: "S.Mdiff", "B.Mup", "Lin.Mdiff2", ...
            out |= {f"{k}.{k2}" for k2, v2 in v.items() if has(v2)}
    return out


def replay_clauses(prop, cfg):
    """clauses evaluated on the configurations that the design-level model enumerated"""
    def zero_on_boundary():
        dims = [len(f) - 1 for f in cfg["faces"]]
        for a, comp in enumerate(cfg["u"]):
            def walk(n, ix):
                if isinstance(n, list) and not (len(n) == 2 and all(isinstance(v, int) for v in n)):
                    return all(walk(v, ix + [k]) for k, v in enumerate(n))
                return n[0] == 0 or not (ix[a] == 0 or ix[a] == dims[a])
            if not walk(comp, []):
                return False
        return True
    bc_ok = not cfg.get("bc_singular")
    table = {
        "C05": ["C05_Diffusion", "C05_Central", "C05_Upwind"],
        "C06": ["C06_DiffConst", "C06_CentralConst", "C06_UpwindConst"],
        "C04": ["C04_DiffInterior", "C04_ConvInterior", "C04_UpInterior"],
        "C03": ["C03_Robin", "C03_Periodic", "C03_InteriorKept", "C03_RowsSatisfied", "C03_RowsEncodeRobin",
                "C03_RowsOnGhostOnly"] if bc_ok else [],
        "C01": (["C01_ClosedDiffusion", "C01_ClosedCentral", "C01_ClosedUpwind", "C01_ClosedDivergence"]
                if zero_on_boundary() and cfg["cls"] != "SphericalGrid3D" else []),
        "C07": [], "C17": [], "C08": [],
        "C11": ["C11_Linear", "C11_Arithmetic", "C11_Harmonic", "C11_Upwind", "C11_UpwindRepeat"],
    }
    return table.get(prop, [])


def offsets_str(detail):
    if not detail:
        return ""
    return ";".join("(" + ",".join(str(x) for x in off) + ")" for off in sorted(tuple(o) for o in detail))


def run_property(prop, tier, seed, *, clauses_for, n_quick, n_thorough, gen_kw=None, extra_conform=(),
                 design=None, rule="", assumptions=(), classes=None, extra_configs=(), sig_extra=None,
                 chunk=25, observe=None, generator=None, vacuity_classes=True, parts=None):
    """generic numeric-layer check: generate configurations (seeded), drive the real code,
    validate the lifted observations with FVTraceOps, report."""
    from findings import Report
    rep = Report(prop, tier, seed)
    des = design(tier, seed) if design else {"states": 0, "transitions": 0, "configs": []}

    def part_episodes(pt, offset):
        n = pt["n_quick"] if tier == "quick" else pt["n_thorough"]
        configs = list(pt.get("extra_configs", []))
        kws = pt.get("gen_kw") if isinstance(pt.get("gen_kw"), list) else [pt.get("gen_kw") or {}]
        for j, kw in enumerate(kws if n > 0 else []):
            configs += gen_configs(seed * 1000 + j + offset, max(1, n // len(kws)), classes=pt.get("classes"),
                                   generator=pt.get("generator"), **kw)
        eps = make_episodes(configs, pt["clauses_for"], pt.get("extra_conform", ()), observe=pt.get("observe"))
        return eps
    main_part = dict(clauses_for=clauses_for, n_quick=n_quick, n_thorough=n_thorough, gen_kw=gen_kw,
                     extra_conform=extra_conform, classes=classes, generator=generator, observe=observe,
                     extra_configs=list(extra_configs))
    all_parts = [main_part] + list(parts or [])
    if des.get("configs"):
        # spec -> code: configurations enumerated by the design-level TLC model, replayed into the builders;
        # conformance of every output to the reference semantics is recorded (tripwire), the property's
        # operator-level clauses are evaluated on the observed values
        all_parts.append(dict(clauses_for=lambda cfg: replay_clauses(prop, cfg), n_quick=0, n_thorough=0,
                              gen_kw=[], extra_configs=des["configs"], classes=[],
                              extra_conform=["Mdiff", "Mconv", "Mup", "ghost", "Mbc", "Rbc", "divu"]))
    episodes = []
    for k, pt in enumerate(all_parts):
        eps = part_episodes(pt, 100 * k)
        for e in eps:
            e["id"] = len(episodes)
            episodes.append(e)
    by_id, tot = validate(episodes, chunk=chunk)
    per_class, per_clause, undecided = {}, {}, {}
    for e in episodes:
        cls = e["cfg"]["cls"]
        lab = e["cfg"].get("label", cls)
        per_class[lab] = per_class.get(lab, 0) + 1
        v = by_id[e["id"]]
        for cl in e["wanted"]:
            per_clause[cl] = per_clause.get(cl, 0) + 1
        unknown_out = outputs_with_unknown(e["obs"])
        for cl in list(v["failing"]):
            # a clause that touches a finite observation which could not be lifted (true denominator
            # beyond the lifting bound) cannot be decided exactly: undecided, not failing
            needs = UNKNOWN_SCOPE.get(cl) or NEEDS.get(cl) or list(e["obs"].keys())
            far = e["obs"].get("_far", {})
            if any(o in unknown_out and not (o in TARGETED.get(cl, ()) and far.get(o, False)) for o in needs):
                v["failing"].remove(cl)
                v.setdefault("undecided", []).append(cl)
        for cl in v["failing"]:
            sig = {"grid_class": cls}
            off = offsets_str(v.get("detail", {}).get(cl))
            if off:
                sig["offsets"] = off
            if "UpwindAlt" in cl or cl == "C05_TvdUnit":
                sig["uup_zero_where_u_nonzero"] = uup_zero_flag(e["cfg"])
                if sig["uup_zero_where_u_nonzero"]:
                    sig.pop("offsets", None)
            if sig_extra:
                sig.update(sig_extra(cl, e, v))
            rep.fail(cl, sig, {"cfg": e["cfg"], "obs": {k: e["obs"][k] for k in e["obs"] if k in
                               set(o for c2 in [cl] for o in NEEDS.get(c2, []))}})
        for b in v["nonconf"]:
            if b in unknown_out:
                continue          # an unliftable entry cannot be compared exactly
            rep.nonconform(f"{b}:{cls}")
        for cl in v.get("undecided", []):
            undecided[cl] = undecided.get(cl, 0) + 1
    for cl, n in undecided.items():
        if n * 4 > per_clause.get(cl, 0):
            raise tlcrun.MachineryError(f"vacuity: clause {cl} undecided (32-bit overflow in TLC) in {n} of "
                                        f"{per_clause.get(cl, 0)} episodes")
    missing = [c for c in (classes or drive.CLASSES) if not per_class.get(c)] if vacuity_classes else []
    if missing:
        raise tlcrun.MachineryError(f"vacuity: no configuration for {missing}")
    distinct = {nontrivial_hash(e["cfg"]) for e in episodes
                if max(len(f) for f in e["cfg"]["faces"]) > 2 and not e.get("skipped")}
    if len(episodes) and sum(1 for e in episodes if e.get("skipped")) > len(episodes) // 2:
        raise tlcrun.MachineryError("vacuity: more than half of the instances were skipped as ill-conditioned")
    samp = episodes[len(episodes) // 2]
    cov = {
        "states": des.get("states", 0) + tot["distinct"], "transitions": des.get("transitions", 0) + tot["states"],
        "traces_validated_against_impl": len(episodes), "evaluations": sum(per_clause.values()),
        "distinct_nontrivial": len(distinct),
        "rule": rule or "seeded configurations of the bounded space (DESIGN 5) plus the configurations enumerated by the "
                        "design model; non-trivial = at least two cells on some axis; distinct by canonical hash",
        "exhaustive": False, "per_grid_class": per_class, "per_clause": per_clause,
        "skipped_ill_conditioned": sum(1 for e in episodes if e.get("skipped")),
        "undecided_overflow": undecided,
        "design_model": {k: des[k] for k in des if k != "configs"},
        "samples": [{"cfg": {k: samp["cfg"][k] for k in ("cls", "faces", "bc")}, "wanted": samp["wanted"],
                     "verdict": by_id[samp["id"]]}],
    }
    return rep.finish(cov, assumptions=list(assumptions) + [
        "float outputs lifted to rationals (|x-p/q| <= 3e-14 max(1,|x|), q <= 3e4; coincidental lift probability 1.6e-5 per non-rational value)",
        "SphericalGrid3D runs with the rational surrogate metric s(t)=t(4-t)/4 installed harness-side (DESIGN 3.3 D3)"])


DESIGN_INVARIANTS = {
    "C01": ["DC01", "DC01_Geometric", "DC01_Open"], "C03": ["DC03"], "C04": ["DC04"], "C05": ["DC05_Diffusion", "DC05_Central", "DC05_Upwind"],
    "C06": ["DC06"], "C07": ["DC07"], "C17": ["DC17"], "C08": ["DC08"], "C11": ["DC11"],
}


def design_ops(prop, replay_clauses, replay_budget=40):
    """returns a `design` callable for run_property: runs the design-level model FVDesignOps with the
    invariants of `prop` (TLC, exhaustive over the bounded configuration space) and turns a sample of
    the configurations TLC enumerated into episodes for the real code (spec -> code)"""
    from fractions import Fraction as Fr
    from opsdrive import enc, nested, face_shape, trans_shape, SIDES, _nonsingular

    def run(tier, seed):
        base = open(tlcrun.SPEC + f"/FVDesignOps_{tier}.cfg").read()
        lines = [l for l in base.splitlines() if not l.startswith("INVARIANT")]
        lines = [l.replace("Emit = FALSE", "Emit = TRUE") for l in lines]
        lines += [f"INVARIANT {inv}" for inv in DESIGN_INVARIANTS[prop]]
        path = tlcrun.fresh("designops.cfg")
        open(path, "w").write("\n".join(lines) + "\n")
        res = tlcrun.run_tlc("FVDesignOps.tla", path, workers=16, timeout=3000, heap="8g")
        if not res["ok"]:
            raise tlcrun.MachineryError(f"design-level model FVDesignOps ({prop}) failed:\n" + tlcrun.tlc_error_excerpt(res["out"]))
        emitted = res["printed"]
        rng = random.Random(seed)
        picks = rng.sample(emitted, min(replay_budget if tier == "quick" else 10 * replay_budget, len(emitted)))
        configs = []
        for em in picks:
            cls = em["cls"]
            dims = [len(f) - 1 for f in em["faces"]]
            d = len(dims)
            full = [n + 2 for n in dims]
            coef = {(c[0], tuple(c[1])): c[2] for c in em["coef"]}

            def comp(a, absolute):
                def fn(ix):
                    q = coef.get((a + 1, tuple(ix)), [0, 1])
                    return [abs(q[0]), q[1]] if absolute else q
                return nested(face_shape(dims, a), fn)
            cfg = {"cls": cls, "aunit": em["aunit"], "faces": em["faces"], "label": cls,
                   "D": [comp(a, True) for a in range(d)], "u": [comp(a, False) for a in range(d)],
                   "beta": nested(dims, lambda ix: enc(1)), "gamma": nested(dims, lambda ix: enc(2)),
                   "alpha": nested(dims, lambda ix: enc(1)), "dt": enc(1), "lam": enc(3),
                   "limiters": ["SUPERBEE"], "const": enc(1), "lin_alpha": enc(0), "lin_beta": [enc(1)] * d,
                   "closed": False, "from_design_model": True}
            cfg["uup"] = cfg["u"]
            cfg["phi"] = nested(full, lambda ix: enc(1 + (sum((k + 2) * i for k, i in enumerate(ix)) * 7) % 5))
            kind = em["bck"]
            bc = {}
            ok = True
            for a in range(d):
                lab = drive.AXIS_LABELS[cls][a]
                per = kind == "periodic" and lab != "r" and not (cls == "SphericalGrid3D" and lab == "theta")
                for s, high in ((SIDES[a][0], False), (SIDES[a][1], True)):
                    shp = trans_shape(dims, a)
                    av, bv = {"dirichlet": (0, 1), "robin": (2, -3)}.get(kind, (1, 0))
                    A = nested(shp, lambda ix: Fr(av)); B = nested(shp, lambda ix: Fr(bv))
                    if not _nonsingular(cfg, a, high, A, B, dims):
                        ok = False
                    bc[s] = {"a": nested(shp, lambda ix: enc(av)), "b": nested(shp, lambda ix: enc(bv)),
                             "c": nested(shp, lambda ix: enc(2 if high else -1)), "periodic": per, "kind": kind}
            cfg["bc"] = bc
            cfg["bc_singular"] = not ok
            configs.append(cfg)
        return {"states": res["distinct"], "transitions": res["states"], "configs": configs,
                "module": "FVDesignOps", "invariants": DESIGN_INVARIANTS[prop], "configurations_enumerated": len(emitted),
                "configurations_replayed": len(configs)}
    return run
