"""./check Cxx --replay <file>: re-evaluate one recorded witness against the current working tree.

A replay file (written next to every VIOLATION line) holds the property, the failing clause with its
signature, the tier and seed of the run and a self-contained witness.  Numeric-layer witnesses carry the
complete configuration: the real code is driven with it again, the outputs are lifted and the one clause is
evaluated by TLC (FVTraceOps / FVTraceMesh) - exit 1 with a VIOLATION line if it still fails, exit 0 if it holds
now.  Witnesses of the lifecycle, contract and limiter layers are regenerated deterministically from the recorded
tier and seed: the whole check is run again and reports the violation again if it is still there."""
import importlib
import json
import os

import tlcrun


def _observer(cfg):
    import maxdrive
    import opsdrive
    import scaledrive
    import solvedrive
    import symdrive
    if "big" in cfg:
        return symdrive.observe
    if "dec" in cfg and "L" in cfg:
        return scaledrive.observe
    if "xstar" in cfg:
        return solvedrive.observe
    if "closed_system" in cfg:
        return maxdrive.observe
    return opsdrive.observe


def replay(prop, path):
    d = json.load(open(path))
    if d.get("property") != prop:
        raise tlcrun.MachineryError(f"{path} is a witness of {d.get('property')}, not of {prop}")
    sig, wit = d.get("signature", {}), d.get("witness", {})
    clause = sig.get("clause")
    mod = importlib.import_module("props." + prop.lower())
    if isinstance(wit, dict) and "cfg" in wit and prop == "C10":
        cfg = wit["cfg"]
        ep = {"id": 0, "cfg": cfg, "obs": mod.observe(cfg)}
        verdicts, _ = tlcrun.run_chunks("FVTraceMesh.tla", "FVTraceMesh.cfg", [ep], "ep", chunk=1)
        still = clause in verdicts[0]["failing"]
    elif isinstance(wit, dict) and "cfg" in wit and "faces" in wit["cfg"] and clause:
        import opscheck
        cfg = wit["cfg"]
        eps = opscheck.make_episodes([cfg], lambda c: [clause], observe=_observer(cfg))
        if not eps[0]["wanted"]:
            print(f"replay {os.path.basename(path)}: the clause {clause} is not evaluated on this configuration any more "
                  f"(skipped as ill-conditioned or not applicable)")
            return 0
        by, _ = opscheck.validate(eps, chunk=1)
        v = by[eps[0]["id"]]
        still = clause in v["failing"]
        if clause in v.get("undecided", []):
            print(f"replay {os.path.basename(path)}: clause {clause} is undecided on this witness now")
            return 0
    else:
        # lifecycle / contract / limiter / algebra witnesses: deterministic regeneration from tier and seed
        print(f"replay {os.path.basename(path)}: re-running ./check {prop} --tier {d.get('tier', 'quick')} with seed "
              f"{d.get('seed', 0)} (the witness is regenerated deterministically)")
        return mod.run(d.get("tier", "quick"), int(d.get("seed", 0) or 0))
    if still:
        import findings
        hit = next((e for e in findings.load_known() if findings._matches(e, prop, sig)), None)
        if hit is not None:
            print(f"KNOWN-FINDING: property={prop} {hit['what']} [{hit['id']}]")
            return 0
        print(f"VIOLATION property={prop} replay={path}")
        print(f"  clause {clause} still fails on the recorded witness; signature: {json.dumps(sig, sort_keys=True)}")
        return 1
    print(f"replay {os.path.basename(path)}: clause {clause} holds on the recorded witness with the current tree")
    return 0
