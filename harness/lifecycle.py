"""Replay of FVLifecycle behaviours into real PyFVTool objects (spec -> code, DESIGN 3.2).

TLC (-simulate) prints, for every state of every behaviour, the action taken and the projection
of the spec state.  Each action is performed on real objects; after every step the real objects
are observed *semantically* (recompute boundary term / ghost layer and compare with what the
object holds; object identities; byte snapshots) and judged:

  C09_FreshSolve      a solve returns bit-for-bit what a freshly constructed variable with the same
                      interior values and (deep-copied) BCs returns - whenever the spec says so
  C09_FreshAfter      after solvePDE / apply_BCs ghost layer and cached boundary term are fresh
  C09_StaleUnnoticed  the spec says a cache / ghost layer is fresh, the object holds a stale one
  C09_ExplicitUsable  the variable returned by solveExplicitPDE can be solved implicitly
  C14_Independent     copy()/operator results share no storage and no BC object with operands
  C14_OperandsKept    operators / funceval / copy leave their operands byte-identical
  C15_Pure            builders and solveMatrixPDE / solveExplicitPDE leave their inputs byte-identical
  C15_Deterministic   a builder called twice returns bit-identical results
  C15_NoMeshAlias     returned arrays do not alias mesh storage
  C15_ResultStable    a returned object is not changed by a later call of the same builder with other inputs
Flag-level differences between spec and code are reported as non-conformance only.
"""
import contextlib
import copy
import io
import json
import warnings

import drive
import tlcrun

# spec side names -> real side names per grid class (non-radial sides only: the periodic toggle
# is part of the alphabet)
GRIDS = [
    ("Grid1D", ("left", "right"), lambda P, np: P.Grid1D(np.array([0.0, 1.0, 3.0, 4.0]))),
    ("Grid2D", ("left", "top"), lambda P, np: P.Grid2D(np.array([0.0, 1.0, 3.0]), np.array([0.0, 2.0, 3.0, 4.0]))),
    ("Grid3D", ("bottom", "back"), lambda P, np: P.Grid3D(2, 2, 2, 1.0, 2.0, 3.0)),
    ("CylindricalGrid2D", ("bottom", "top"), lambda P, np: P.CylindricalGrid2D(np.array([0.0, 1.0, 2.0]), np.array([0.0, 1.0, 3.0]))),
    ("PolarGrid2D", ("bottom", "top"), lambda P, np: P.PolarGrid2D(np.array([1.0, 2.0, 4.0]), np.array([0.0, 1.0, 2.0]))),
    ("CylindricalGrid3D", ("back", "front"), lambda P, np: P.CylindricalGrid3D(2, 2, 2, 2.0, 3.0, 1.0)),
    ("SphericalGrid3D", ("back", "front"), lambda P, np: P.SphericalGrid3D(2, 2, 2, 2.0, 2.0, 3.0)),
]
ALL_SIDES = ("left", "right", "bottom", "top", "back", "front")


def parse_behaviours(printed):
    """TLC prints the initial state once; every behaviour restarts at level 2"""
    behs, cur = [], None
    for rec in printed:
        if rec["level"] == 1:
            continue
        if rec["level"] == 2:
            cur = []
            behs.append(cur)
        if cur is not None:
            cur.append(rec)
    return [b for b in behs if b]


class World:
    def __init__(self, grid_index):
        self.P, self.np = drive.pf(), drive.np()
        self.cls, self.sides, mk = GRIDS[grid_index % len(GRIDS)]
        with warnings.catch_warnings():
            warnings.simplefilter("ignore")
            self.m = mk(self.P, self.np)
        self.vars, self.bcs = {}, {}
        self.views = {}      # (id of BC object, side) -> (BC object, held slice view of its c array)
        # how CellVariables are constructed in this world: from interior values (float), or from a ghost-inclusive
        # array whose ghost layer is consistent with the BCs (float; integer-typed where every entry is integral)
        self.style = ("interior", "ghost", "ghost_int")[(grid_index // len(GRIDS)) % 3]
        self.counter = 0
        self.mesh_snap = self.snap_mesh()
        self.D = self.P.FaceVariable(self.m, 1.5)

    def fresh(self):
        self.counter += 1
        return float(self.counter)

    def side(self, bc, s):
        return getattr(bc, self.sides[0 if s == "s1" else 1])

    def new_values(self):
        np = self.np
        base = self.fresh()
        return base + np.arange(int(np.prod(self.m.dims)), dtype=float).reshape(tuple(self.m.dims)) * 0.25

    def ctor_values(self, bc=None):
        """the cell_value argument of a constructor call, in the style of this world"""
        np = self.np
        inner = self.new_values()
        if self.style == "interior":
            return inner
        from pyfvtool.boundary import cellValuesWithBoundaries
        if self.style == "ghost_int":
            inner = np.floor(inner)
        full = np.asarray(cellValuesWithBoundaries(inner, bc if bc is not None else self.P.BoundaryConditions(self.m)))
        if self.style == "ghost_int" and np.all(np.isfinite(full)) and np.all(full == np.round(full)):
            return full.astype(np.int64)
        return full

    # ---- snapshots --------------------------------------------------------------------
    def snap_mesh(self):
        np, m = self.np, self.m
        parts = [np.asarray(m.dims).tobytes()] + [np.asarray(getattr(m, nm)).tobytes() for nm in ("corners", "edges")
                                                  if hasattr(m, nm)]
        for prop in (m.cellsize, m.cellcenters, m.facecenters):
            for nm in ("_x", "_y", "_z"):
                parts.append(np.asarray(getattr(prop, nm)).tobytes())
        return b"|".join(parts)

    def snap_bc(self, bc):
        np = self.np
        parts = []
        for s in ALL_SIDES:
            f = getattr(bc, s)
            parts += [np.asarray(f.a).tobytes(), np.asarray(f.b).tobytes(), np.asarray(f.c).tobytes(),
                      bytes([bool(f.periodic), bool(f.a.modified), bool(f.b.modified), bool(f.c.modified)])]
        return b"|".join(parts)

    def snap_var(self, v):
        np = self.np
        return b"|".join(self.snap_var_parts(v))

    def snap_var_parts(self, v):
        """(own value array and flag, BC object, cached boundary term) - the first and the last belong to the
        variable alone, the BC object may be shared with other variables"""
        np = self.np
        own = np.asarray(v._value).tobytes() + bytes([bool(v._value.modified)])
        cache = b""
        if hasattr(v, "_BCsTerm"):
            M, R = v._BCsTerm
            cache = b"|".join([M.data.tobytes(), M.indices.tobytes(), M.indptr.tobytes(), np.asarray(R).tobytes()])
        return own, self.snap_bc(v.BCs), cache

    def snap_all(self):
        return {k: self.snap_var(v) for k, v in self.vars.items()}, {k: self.snap_bc(b) for k, b in self.bcs.items()}

    # ---- semantic observations --------------------------------------------------------------
    def cache_fresh(self, v):
        np = self.np
        from pyfvtool.boundary import boundaryConditionsTerm
        if not hasattr(v, "_BCsTerm"):
            return None
        try:
            M2, R2 = boundaryConditionsTerm(v.BCs)
        except ValueError:
            return False
        M1, R1 = v._BCsTerm
        return bool(np.array_equal(M1.toarray(), M2.toarray()) and np.array_equal(np.asarray(R1), np.asarray(R2)))

    def ghost_fresh(self, v):
        np = self.np
        from pyfvtool.boundary import cellValuesWithBoundaries
        with np.errstate(all="ignore"):
            g = cellValuesWithBoundaries(np.asarray(v.value), v.BCs)
        return bool(np.array_equal(np.asarray(v._value), g))

    def terms(self):
        P = self.P
        beta = P.CellVariable(self.m, 2.0)
        gam = P.CellVariable(self.m, 3.0)
        return [P.linearSourceTerm(beta), P.constantSourceTerm(gam), -P.diffusionTerm(self.D)]


class Judge:
    def __init__(self):
        self.fail = []         # (clause, sig extras, witness)
        self.nonconf = {}
        self.steps = 0
        self.actions = {}
        self.solves = 0
        self.stale_expected = 0

    def bad(self, clause, sig, wit):
        self.fail.append((clause, sig, wit))

    def note(self, what):
        self.nonconf[what] = self.nonconf.get(what, 0) + 1


def probe_solve(W, rec, judge, hist):
    """after the last step of a behaviour: solve one variable and compare with a fresh start; what
    the spec expects follows from the projection: the entry check fires (flags) or the cache is fresh"""
    P, np = W.P, W.np
    import copy as _copy
    for key in ("vars", "bcs"):
        if isinstance(rec[key], list):
            rec[key] = {}
    cands = [a for a in rec["args"] if isinstance(a, str) and a in rec["vars"] and a in W.vars]
    cands = cands or sorted(v for v in rec["vars"] if v in W.vars)
    if not cands:
        return
    vn = cands[-1]
    pv = rec["vars"][vn]
    if not pv["hasCache"]:
        return
    dirty = pv["valDirty"] or bool(rec["bcs"].get(pv["bc"], {}).get("dirty"))
    expect_fresh = dirty or pv["cacheFresh"]
    v = W.vars[vn]
    shared = sum(1 for w in W.vars.values() if w.BCs is v.BCs) > 1
    with warnings.catch_warnings(), np.errstate(all="ignore"), contextlib.redirect_stdout(io.StringIO()):
        warnings.simplefilter("ignore")
        try:
            fresh = P.CellVariable(W.m, np.array(v.value, copy=True), _copy.deepcopy(v.BCs))
            terms = W.terms()
            P.solvePDE(fresh, terms)
            P.solvePDE(v, terms)
        except Exception as ex:      # noqa: BLE001
            judge.bad("C09_ActionRaises", {"grid_class": W.cls, "action": "probe SolvePDE", "error": type(ex).__name__},
                      {"history": hist, "error": repr(ex)})
            return
    judge.solves += 1
    if not np.array_equal(np.asarray(v._value), np.asarray(fresh._value)):
        judge.bad("C09_FreshSolve", {"grid_class": W.cls, "shared_bc": shared, "spec_expects_stale": not expect_fresh},
                  {"grid_class": W.cls, "history": hist + [["SolvePDE(probe)", [vn]]]})


def replay(beh, index, judge, probe=False):
    W = World(index)
    P, np = W.P, W.np
    hist = []
    for rec in beh:
        name, args = rec["name"], rec["args"]
        hist.append([name, args])
        judge.steps += 1
        judge.actions[name] = judge.actions.get(name, 0) + 1
        ctx = {"grid_class": W.cls}
        wit = {"grid_class": W.cls, "history": list(hist)}
        before_vars, before_bcs = W.snap_all()
        before_parts = {k: W.snap_var_parts(v) for k, v in W.vars.items()}
        with warnings.catch_warnings(), np.errstate(all="ignore"), contextlib.redirect_stdout(io.StringIO()):
            warnings.simplefilter("ignore")
            try:
                step(W, name, args, rec, judge, ctx, wit, before_vars)
            except Exception as ex:        # noqa: BLE001 - a valid action must not raise
                judge.bad("C09_ActionRaises" if name in ("SolvePDE", "SolveExplicit", "ApplyBCs") else "C14_ActionRaises",
                          dict(ctx, action=name, error=type(ex).__name__), dict(wit, error=repr(ex)))
                return
        if W.snap_mesh() != W.mesh_snap:
            judge.bad("C15_Pure", dict(ctx, action=name, what="mesh modified"), wit)
            return
        # frame condition: objects the action does not name stay byte-identical
        touched = set(a for a in args if isinstance(a, str))
        after_vars, after_bcs = W.snap_all()
        clause = "C14_OperandsKept" if name in ("Copy", "Arith") else "C15_Pure"
        for k, sb in before_vars.items():
            if k in W.vars and k not in touched and after_vars.get(k) != sb:
                # sharing legitimately propagates BC edits / flag resets to co-users of the BC object ...
                shares = any(W.vars[k].BCs is W.vars[t].BCs for t in touched if t in W.vars) or \
                    any(W.vars[k].BCs is W.bcs.get(t) for t in touched)
                if not shares:
                    judge.bad(clause, dict(ctx, action=name, what="unrelated variable modified"), wit)
                else:
                    # ... but never its own value array or its own cached boundary term
                    own0, _, cache0 = before_parts.get(k, (None, None, None))
                    own1, _, cache1 = W.snap_var_parts(W.vars[k])
                    if own0 is not None and (own0 != own1 or cache0 != cache1):
                        judge.bad(clause, dict(ctx, action=name,
                                               what="value or cached boundary term of a co-user of the BC object modified"), wit)
        compare_projection(W, rec, judge, ctx, wit, name)
    if probe and beh:
        probe_solve(W, beh[-1], judge, hist)


def compare_projection(W, rec, judge, ctx, wit, name):
    for key in ("vars", "bcs"):          # ToJson prints an empty function as []
        if isinstance(rec[key], list):
            rec[key] = {}
    for vn, pv in rec["vars"].items():
        v = W.vars.get(vn)
        if v is None:
            continue
        cf, gf = W.cache_fresh(v), W.ghost_fresh(v)
        if pv["hasCache"] and cf is None:
            judge.note(f"hasCache:{name}")
        if pv["hasCache"] and pv["cacheFresh"] and cf is False:
            judge.bad("C09_StaleUnnoticed", dict(ctx, what="cache", after=name), dict(wit, var=vn))
        if pv["ghostFresh"] and not gf:
            judge.bad("C09_StaleUnnoticed", dict(ctx, what="ghost", after=name), dict(wit, var=vn))
        if bool(v.value.modified) != pv["valDirty"]:
            judge.note(f"valDirty:{name}")
        bobj = W.bcs.get(pv["bc"])
        if bobj is not None and v.BCs is not bobj:
            judge.note(f"bcIdentity:{name}")
    for bn, pb in rec["bcs"].items():
        b = W.bcs.get(bn)
        if b is None:
            continue
        real = {s for s in ("s1", "s2") if W.side(b, s).modified}
        if real != set(pb["dirty"]):
            judge.note(f"bcDirty:{name}")
        if bool(b.modified) != bool(pb["dirty"]):
            judge.note(f"bcModifiedAggregate:{name}")
        if "per" in pb and {s for s in ("s1", "s2") if W.side(b, s).periodic} != set(pb["per"]):
            judge.note(f"bcPeriodic:{name}")


def step(W, name, args, rec, judge, ctx, wit, before_vars):
    P, np = W.P, W.np
    if name == "NewBC":
        W.bcs[args[0]] = P.BoundaryConditions(W.m)
    elif name == "NewVar":
        v, b, pc = args
        W.vars[v] = P.CellVariable(W.m, W.ctor_values(W.bcs[b]), W.bcs[b], BCsTerm_precalc=pc)
    elif name == "NewVarDefault":
        v, b = args
        W.vars[v] = P.CellVariable(W.m, W.ctor_values())
        W.bcs[b] = W.vars[v].BCs
    elif name == "EditBC":
        b, s, how = args
        face = W.side(W.bcs[b], s)
        x = W.fresh()
        if how == "coef":
            face.a = 1.0
            face.b = 1.0
            face.c = 10.0 + x
        elif how == "slice":
            face.c[tuple(slice(0, 1) for _ in face.c.shape)] = 20.0 + x
        elif how == "view":
            # a slice view of face.c taken once and HELD by the program across solves (the view has a private
            # TrackedArray flag that apply_BCs cannot reset); every "view" edit of this side writes through it
            key = (id(W.bcs[b]), s)
            if key not in W.views:
                W.views[key] = (W.bcs[b], face.c[tuple(slice(0, 1) for _ in face.c.shape)])
            W.views[key][1][...] = 50.0 + x
        elif how == "utility":
            face.newtonCooling(1.0, 3.0, 30.0 + x)
        elif how == "aonly":
            face.a = 1.25 + x / 1000.0
        elif how == "bonly":
            face.b = 0.77 + x / 1000.0
        elif how == "conly":
            face.c = 40.0 + x
        else:
            face.periodic = not face.periodic
    elif name == "AssignValue":
        v, how = args
        if how == "whole":
            assigned = W.new_values()
            W.vars[v].value = assigned
            if not np.array_equal(np.asarray(W.vars[v].value, dtype=float), assigned):
                # "the same interior values": what is read back is what was assigned
                judge.bad("C09_AssignKept", dict(ctx, how=how, style=W.style,
                                                 dtype=str(np.asarray(W.vars[v]._value).dtype)), wit)
        else:
            val = 100.0 + W.fresh() + 0.5
            sl = tuple(slice(0, 1) for _ in W.m.dims)
            W.vars[v].value[sl] = val
            if not np.all(np.asarray(W.vars[v].value, dtype=float)[sl] == val):
                judge.bad("C09_AssignKept", dict(ctx, how=how, style=W.style,
                                                 dtype=str(np.asarray(W.vars[v]._value).dtype)), wit)
    elif name == "UpdateValue":
        v, w = args
        W.vars[v].update_value(W.vars[w])
    elif name == "Copy":
        v, w, b = args
        src = W.vars[v]
        r = src.copy()
        W.vars[w], W.bcs[b] = r, r.BCs
        check_independent(W, src, r, judge, ctx, wit, "copy")
        if not (np.array_equal(np.asarray(r._value), np.asarray(src._value))):
            judge.bad("C14_CopyEqual", dict(ctx), wit)
        if W.snap_var(src) != before_vars[v]:
            judge.bad("C14_OperandsKept", dict(ctx, action="copy"), wit)
    elif name == "Arith":
        v, r, b, op = args
        src = W.vars[v]
        inner = np.array(src.value, copy=True)
        if op == "add":
            res, exp = src + 1.5, inner + 1.5
        elif op == "mul_scalar":
            res, exp = 2.0 * src, 2.0 * inner
        elif op == "neg":
            res, exp = -src, -inner
        else:
            res, exp = P.funceval(lambda x: x * x + 1.0, src), inner * inner + 1.0
        W.vars[r], W.bcs[b] = res, res.BCs
        check_independent(W, src, res, judge, ctx, wit, op)
        if not np.array_equal(np.asarray(res.value), exp):
            judge.bad("C14_Elementwise", dict(ctx, op=op), wit)
        if W.snap_var(src) != before_vars[v]:
            judge.bad("C14_OperandsKept", dict(ctx, action=op), wit)
        if not W.ghost_fresh(res):
            judge.bad("C14_ResultBCs", dict(ctx, op=op), wit)
        if not bcs_equal(W, res.BCs, src.BCs):
            judge.bad("C14_ResultBCs", dict(ctx, op=op, what="BCs differ from left operand"), wit)
    elif name == "ApplyBCs":
        v = W.vars[args[0]]
        v.apply_BCs()
        if not W.ghost_fresh(v) or W.cache_fresh(v) is False:
            judge.bad("C09_FreshAfter", dict(ctx, action="apply_BCs"), wit)
    elif name == "SolvePDE":
        v = W.vars[args[0]]
        use = rec["use"]
        expect_fresh = use["exists"] and use["cache"] == use["bc"]
        shared = sum(1 for w in W.vars.values() if w.BCs is v.BCs) > 1
        fresh = P.CellVariable(W.m, np.array(v.value, copy=True), copy.deepcopy(v.BCs))
        terms = W.terms()
        snap_terms = [t.data.tobytes() if hasattr(t, "data") and not isinstance(t, np.ndarray) else np.asarray(t).tobytes() for t in terms]
        ids_terms = [id(t) for t in terms]
        P.solvePDE(fresh, list(terms))
        ret = P.solvePDE(v, terms)
        judge.solves += 1
        if [id(t) for t in terms] != ids_terms:
            # the caller's list itself is an input: same length, same objects
            judge.bad("C15_Pure", dict(ctx, action="solvePDE", what="term list modified"), wit)
            terms = terms[:len(ids_terms)]
        same = bool(np.array_equal(np.asarray(v._value), np.asarray(fresh._value)))
        if ret is not v:
            judge.bad("C09_InPlace", dict(ctx), wit)
        if not expect_fresh:
            judge.stale_expected += 1
        if not same:
            judge.bad("C09_FreshSolve", dict(ctx, shared_bc=shared, spec_expects_stale=not expect_fresh), wit)
        elif not expect_fresh:
            judge.note("spec expects a stale solve, code solved fresh")
        if not W.ghost_fresh(v) or W.cache_fresh(v) is False:
            judge.bad("C09_FreshAfter", dict(ctx, action="solvePDE"), wit)
        now = [t.data.tobytes() if hasattr(t, "data") and not isinstance(t, np.ndarray) else np.asarray(t).tobytes() for t in terms]
        if now != snap_terms:
            judge.bad("C15_Pure", dict(ctx, action="solvePDE", what="terms modified"), wit)
    elif name == "SolveFails":
        v = W.vars[args[0]]
        interior_before = np.array(v.value, copy=True)
        # valid terms first (they carry matrix and right-hand-side contributions), then a vector of the wrong size
        terms = W.terms() + [P.constantSourceTerm(P.CellVariable(W.m, 2.0 + W.fresh())), np.ones(2)]
        try:
            P.solvePDE(v, terms)
            judge.note("solvePDE accepted a right-hand-side vector of the wrong size")
        except Exception:       # noqa: BLE001
            pass
        if not np.array_equal(np.asarray(v.value), interior_before):
            judge.bad("C09_FailedSolveKeepsValues", dict(ctx), wit)
    elif name == "SolveExplicit":
        v, r = args
        src = W.vars[v]
        interior_before = np.array(src.value, copy=True)
        bc_before = coeff_bytes(W, src.BCs)
        rhs = P.constantSourceTerm(P.CellVariable(W.m, 1.0 + W.fresh()))
        rhs = rhs + 0.5 + np.arange(rhs.size) * 0.125        # non-zero entries in the ghost rows as well
        rhs_snap = rhs.tobytes()
        res = P.solveExplicitPDE(src, 0.125, rhs)
        W.vars[r] = res
        if not np.array_equal(np.asarray(src.value), interior_before) or rhs.tobytes() != rhs_snap:
            judge.bad("C15_Pure", dict(ctx, action="solveExplicitPDE", what="input modified"), wit)
        if coeff_bytes(W, src.BCs) != bc_before:
            judge.bad("C15_Pure", dict(ctx, action="solveExplicitPDE", what="BC coefficients modified"), wit)
        if res is src or np.shares_memory(np.asarray(res._value), np.asarray(src._value)):
            judge.bad("C14_Independent", dict(ctx, action="solveExplicitPDE"), wit)
        if not hasattr(res, "_BCsTerm") or W.cache_fresh(res) is False or not W.ghost_fresh(res):
            judge.bad("C09_ExplicitUsable", dict(ctx), wit)
    elif name == "SolveMatrix":
        r, b = args
        dbc = P.BoundaryConditions(W.m)
        for s in ALL_SIDES:
            f = getattr(dbc, s)
            if f.a.size:
                f.a = 0.0
                f.b = 1.0
                f.c = 5.0
        Mbc, Rbc = P.boundaryConditionsTerm(dbc)
        M = Mbc + P.linearSourceTerm(P.CellVariable(W.m, 2.0))
        R = Rbc + P.constantSourceTerm(P.CellVariable(W.m, 4.0 + W.fresh()))
        snap = (M.data.tobytes(), M.indices.tobytes(), R.tobytes())
        res = P.solveMatrixPDE(W.m, M, R)
        W.vars[r], W.bcs[b] = res, res.BCs
        if (M.data.tobytes(), M.indices.tobytes(), R.tobytes()) != snap:
            judge.bad("C15_Pure", dict(ctx, action="solveMatrixPDE"), wit)
    elif name == "Build":
        v, kind = args
        build_check(W, W.vars[v], kind, judge, ctx, wit)
    else:
        raise tlcrun.MachineryError(f"unknown action {name}")


def coeff_bytes(W, bc):
    np = W.np
    return b"|".join(np.asarray(getattr(getattr(bc, s), k)).tobytes() for s in ALL_SIDES for k in ("a", "b", "c"))


def bcs_equal(W, b1, b2):
    np = W.np
    for s in ALL_SIDES:
        f1, f2 = getattr(b1, s), getattr(b2, s)
        for k in ("a", "b", "c"):
            if not np.array_equal(np.asarray(getattr(f1, k)), np.asarray(getattr(f2, k))):
                return False
        if bool(f1.periodic) != bool(f2.periodic):
            return False
    return True


def check_independent(W, src, res, judge, ctx, wit, what):
    np = W.np
    if res is src or res.BCs is src.BCs or np.shares_memory(np.asarray(res._value), np.asarray(src._value)):
        judge.bad("C14_Independent", dict(ctx, action=what), wit)
        return
    for s in ALL_SIDES:
        for k in ("a", "b", "c"):
            if np.shares_memory(np.asarray(getattr(getattr(res.BCs, s), k)), np.asarray(getattr(getattr(src.BCs, s), k))):
                judge.bad("C14_Independent", dict(ctx, action=what, what="BC arrays shared"), wit)
                return
    for other in W.vars.values():
        if other is not res and other.BCs is res.BCs:
            judge.bad("C14_Independent", dict(ctx, action=what, what="BC object shared"), wit)
            return


def arrays_of(obj, np):
    """all numpy buffers reachable from a builder result"""
    if obj is None:
        return []
    if isinstance(obj, tuple):
        return [a for o in obj for a in arrays_of(o, np)]
    if hasattr(obj, "_xvalue"):
        return [np.asarray(obj._xvalue), np.asarray(obj._yvalue), np.asarray(obj._zvalue)]
    if hasattr(obj, "indptr"):
        return [obj.data, obj.indices, obj.indptr]
    if hasattr(obj, "_value"):
        return [np.asarray(obj._value)]
    return [np.asarray(obj)]


def build_check(W, v, kind, judge, ctx, wit):
    P, np = W.P, W.np
    u = P.FaceVariable(W.m, 0.75)
    rs = np.random.RandomState(W.counter + 17)
    for nm in ("_xvalue", "_yvalue", "_zvalue"):       # every sign pattern incl. exact zeros
        a = getattr(u, nm)
        if a.size:
            setattr(u, nm, rs.choice([-1.5, -0.5, 0.0, 0.75, 2.0], size=a.shape))
    uup = P.FaceVariable(W.m, 1.0)
    for nm in ("_xvalue", "_yvalue", "_zvalue"):
        a = getattr(uup, nm)
        if a.size:
            setattr(uup, nm, rs.choice([-1.0, 1.0], size=a.shape))
    FL = P.fluxLimiter("SUPERBEE")

    def make(v, u, uup, D):
        return {
            "diffusionTerm": lambda: P.diffusionTerm(D),
            "convectionTerm": lambda: P.convectionTerm(u),
            "convectionUpwindTerm": lambda: (P.convectionUpwindTerm(u), P.convectionUpwindTerm(u, uup)),
            "convectionTVDupwindRHSTerm": lambda: (P.convectionTVDupwindRHSTerm(u, v, FL),
                                                   P.convectionTVDupwindRHSTerm(u, v, FL, uup)),
            "transientTerm": lambda: P.transientTerm(v, 0.5, 1.0),
            "gradientTerm": lambda: P.gradientTerm(v),
            "divergenceTerm": lambda: P.divergenceTerm(P.gradientTerm(v)),
            "linearMean": lambda: P.linearMean(v),
            "arithmeticMean": lambda: P.arithmeticMean(v),
            "upwindMean": lambda: P.upwindMean(v, u),
            "linearSourceTerm": lambda: P.linearSourceTerm(v),
            "constantSourceTerm": lambda: P.constantSourceTerm(v),
            "boundaryConditionsTerm": lambda: P.boundaryConditionsTerm(v.BCs),
            "cellLocations": lambda: P.cellLocations(W.m),
            "faceLocations": lambda: P.faceLocations(W.m),
        }
    builders = make(v, u, uup, W.D)
    fn = builders[kind]
    def inputs():
        return (W.snap_var(v), [a.tobytes() for a in arrays_of(W.D, np)], [a.tobytes() for a in arrays_of(u, np)],
                [a.tobytes() for a in arrays_of(uup, np)])
    before = inputs()
    r1 = fn()
    r2 = fn()
    after = inputs()
    if before != after:
        judge.bad("C15_Pure", dict(ctx, builder=kind), wit)
    b1 = [a.tobytes() for a in arrays_of(r1, np)]
    b2 = [a.tobytes() for a in arrays_of(r2, np)]
    if b1 != b2:
        judge.bad("C15_Deterministic", dict(ctx, builder=kind), wit)
    # a returned object stays what it was when the same builder is called with OTHER inputs in between (terms are
    # reused in time loops while other terms are rebuilt), and the call after that still returns the same bits
    v2 = P.CellVariable(W.m, 2.0 + 0.5 * np.asarray(v.value)[::-1].reshape(np.asarray(v.value).shape) ** 2)
    for s_ in W.sides:
        f_ = getattr(v2.BCs, s_)
        f_.a[:], f_.b[:], f_.c[:] = 0.5, 2.0, -3.0
    v2.apply_BCs()
    u2, uup2, D2 = P.FaceVariable(W.m, -1.25), P.FaceVariable(W.m, -1.0), P.FaceVariable(W.m, 7.0)
    for nm in ("_xvalue", "_yvalue", "_zvalue"):
        a = getattr(u2, nm)
        if a.size:
            setattr(u2, nm, rs.choice([-2.5, 0.0, 0.25, 3.0], size=a.shape))
    make(v2, u2, uup2, D2)[kind]()
    if [a.tobytes() for a in arrays_of(r1, np)] != b1:
        judge.bad("C15_ResultStable", dict(ctx, builder=kind, what="earlier result changed by a later call"), wit)
    if [a.tobytes() for a in arrays_of(fn(), np)] != b1:
        judge.bad("C15_Deterministic", dict(ctx, builder=kind, what="after a call with other inputs"), wit)
    if inputs() != before:
        judge.bad("C15_Pure", dict(ctx, builder=kind, what="after a call with other inputs"), wit)
    mesh_arrays = [np.asarray(getattr(p, nm)) for p in (W.m.cellsize, W.m.cellcenters, W.m.facecenters)
                   for nm in ("_x", "_y", "_z")] + [np.asarray(getattr(W.m, nm)) for nm in ("dims", "corners", "edges")
                                                     if isinstance(getattr(W.m, nm, None), np.ndarray)]
    for a in arrays_of(r1, np):
        if a.size and any(np.shares_memory(a, ma) for ma in mesh_arrays if ma.size):
            judge.bad("C15_NoMeshAlias", dict(ctx, builder=kind), wit)
            break
    for a in arrays_of(r1, np):
        if a.size and (np.shares_memory(a, np.asarray(v._value))):
            judge.bad("C15_NoInputAlias", dict(ctx, builder=kind), wit)
            break


def simulate(cfg, num, depth, seed, timeout=1800):
    res = tlcrun.run_tlc("FVLifecycle.tla", cfg, workers=1, timeout=timeout, simulate=f"num={num}", depth=depth,
                         seed=seed, heap="4g")
    if "Error:" in res["out"] and "Invariant" in res["out"]:
        raise tlcrun.MachineryError("FVLifecycle invariant violated in simulation:\n" + tlcrun.tlc_error_excerpt(res["out"]))
    if not res["printed"]:
        raise tlcrun.MachineryError("FVLifecycle simulation produced nothing:\n" + tlcrun.tlc_error_excerpt(res["out"]))
    return parse_behaviours(res["printed"]), res


def edge_behaviours(depth, timeout=1800, cfg_name="FVLifecycle_edges.cfg"):
    """every transition of the bounded FVLifecycle state graph (TLC exhaustive, ACTION_CONSTRAINT
    EmitEdge), each turned into a behaviour: a shortest path to its source state plus the edge"""
    import re as _re
    cfg = open(tlcrun.SPEC + "/" + cfg_name).read()
    cfg = _re.sub(r"MaxDepth = \d+", f"MaxDepth = {depth}", cfg)
    path = tlcrun.fresh("edges.cfg")
    open(path, "w").write(cfg)
    res = tlcrun.run_tlc("FVLifecycle.tla", path, workers=1, timeout=timeout, heap="6g")
    if not res["ok"]:
        raise tlcrun.MachineryError("FVLifecycle (edge enumeration) failed:\n" + tlcrun.tlc_error_excerpt(res["out"]))
    edges = res["printed"]
    parent = {}
    init_keys = {e["src"] for e in edges if e["step"]["level"] == 2}
    frontier = list(init_keys)
    for k in init_keys:
        parent[k] = None
    by_src = {}
    for e in edges:
        by_src.setdefault(e["src"], []).append(e)
    while frontier:
        nxt = []
        for k in frontier:
            for e in by_src.get(k, []):
                if e["dst"] not in parent:
                    parent[e["dst"]] = e
                    nxt.append(e["dst"])
        frontier = nxt

    def path_to(key):
        steps = []
        while parent.get(key) is not None:
            e = parent[key]
            steps.append(e["step"])
            key = e["src"]
        return list(reversed(steps))
    behs = []
    for e in edges:
        if e["src"] in parent:
            behs.append(path_to(e["src"]) + [e["step"]])
    return behs, res
