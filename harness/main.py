"""./check Cxx [--tier quick|thorough] [--replay path]"""
import argparse
import importlib
import os
import sys
import traceback

sys.path.insert(0, os.path.dirname(os.path.abspath(__file__)))
os.environ.setdefault("PYTHONHASHSEED", "0")

import tlcrun  # noqa: E402


def main():
    ap = argparse.ArgumentParser()
    ap.add_argument("prop")
    ap.add_argument("--tier", default=os.environ.get("VERIF_TIER", "quick"), choices=["quick", "thorough"])
    ap.add_argument("--replay")
    a = ap.parse_args()
    seed = int(os.environ.get("VERIF_SEED", "0") or 0)
    if a.prop == "selftest":
        import selftest
        return selftest.run()
    mod = importlib.import_module("props." + a.prop.lower())
    try:
        if a.replay:
            import replaywit
            return replaywit.replay(a.prop.upper(), a.replay)
        return mod.run(a.tier, seed)
    except tlcrun.MachineryError as ex:
        print(f"MACHINERY-FAILURE property={a.prop}: {ex}", file=sys.stderr)
        return 2
    except Exception:
        traceback.print_exc()
        print(f"MACHINERY-FAILURE property={a.prop}: unexpected exception", file=sys.stderr)
        return 2


if __name__ == "__main__":
    sys.exit(main())
