"""Solver-level driver (DESIGN 3.3 device D2, the inverse formulation).

The configuration fixes the post-state x* (small integers on every cell, ghost cells included);
the data that make x* the solution are derived from it:
    boundary datum   c   := CoefHi*x*_hi + CoefLo*x*_lo           (exact, in the generator)
    source           gamma := (sum of matrix terms) x* - (other vector terms)   (from the code's matrices)
The real solvePDE is then run on the derived data; its lifted result must be x* again, so every
solver-level observation is a small rational and every predicate is evaluated exactly by TLC.
"""
import contextlib
import io
import itertools
import random
import warnings
from fractions import Fraction as Fr

import drive
import lift
import opsdrive
from opsdrive import dec, enc, nested, to_float_array, interior, SIDES


def periodic_systematic(seed=0):
    """solver problems on the periodic family (every periodic-capable axis x flag on the low / high / both sides x
    other axes with pairwise different end-cell ratios)"""
    import random as _r
    out = []
    for base in opsdrive.periodic_systematic_configs(False, seed):
        cls = base["cls"]
        pa = [a for a in range(drive.dim(cls)) if any(base["bc"][s]["periodic"] for s in SIDES[a])]
        lo, hi = SIDES[pa[0]]
        flag = "both" if base["bc"][lo]["periodic"] and base["bc"][hi]["periodic"] else \
            ("lo" if base["bc"][lo]["periodic"] else "hi")
        rng = _r.Random(hash((seed, cls, pa[0], flag, "solve")) & 0xffffffff)
        cfg = gen_solve_config(rng, cls, faces_override=[[dec(q) for q in f] for f in base["faces"]],
                               force_periodic=set(pa), periodic_flag=flag)
        cfg["systematic"] = "periodic"
        out.append(cfg)
    return out


def gen_solve_config(rng, cls, nmax=3, conv=None, kinds=None, allow_periodic=True, **kw):
    cfg = opsdrive.gen_config(rng, cls, nmax=nmax, kinds=kinds, allow_periodic=allow_periodic, **kw)
    dims = opsdrive.dims_of(cfg)
    d = len(dims)
    full = [n + 2 for n in dims]
    bc = cfg["bc"]

    def is_periodic(a):
        return bc[SIDES[a][0]]["periodic"] or bc[SIDES[a][1]]["periodic"]

    def xval(ix, table):
        deg = sum(1 for a in range(d) if ix[a] == 0 or ix[a] == dims[a] + 1)
        if deg > 1:
            return 0
        if deg == 1:
            a = next(a for a in range(d) if ix[a] == 0 or ix[a] == dims[a] + 1)
            if is_periodic(a):
                jx = list(ix)
                jx[a] = dims[a] if ix[a] == 0 else 1
                return table[tuple(jx)]
        return table[ix]

    def target():
        table = {ix: rng.choice([-2, -1, 0, 1, 2, 3]) for ix in itertools.product(*[range(n) for n in full])}
        return nested(full, lambda ix: enc(xval(ix, table)))
    cfg["xstar"] = target()
    cfg["xstar2"] = target()
    cfg["old"] = nested(dims, lambda ix: enc(rng.choice([-2, -1, 0, 1, 2, 3])))
    cfg["old2"] = nested(dims, lambda ix: enc(rng.choice([-2, -1, 0, 1, 2, 3])))
    cfg["beta"] = nested(dims, lambda ix: enc(rng.choice([0, 1, 2])))
    cfg["alpha_scalar"] = rng.random() < 0.5
    if cfg["alpha_scalar"]:
        a0 = rng.choice([1, 2])
        cfg["alpha"] = nested(dims, lambda ix: enc(a0))
    cfg["conv"] = conv or rng.choice(["none", "central", "upwind", "upwind"])
    cfg["use"] = {"diff": rng.random() < 0.85, "lin": rng.random() < 0.6, "trans": True}
    # derive the boundary data c from the targets (exact)
    for key, ckey in (("xstar", "c"), ("xstar2", "c2")):
        xs = cfg[key]

        def at(ix, xs=xs):
            t = xs
            for k in ix:
                t = t[k]
            return dec(t)
        for a in range(d):
            faces = [dec(q) for q in cfg["faces"][a]]
            for s, high in ((SIDES[a][0], False), (SIDES[a][1], True)):
                dend = (faces[-1] - faces[-2]) if high else (faces[1] - faces[0])
                shp = opsdrive.trans_shape(dims, a)
                others = [b for b in range(d) if b != a]

                def cval(ix, a=a, high=high, dend=dend, others=others, s=s):
                    P = [1] * d
                    P[a] = dims[a] if high else 1
                    for k, b in enumerate(others):
                        P[b] = ix[k] + 1
                    g = list(P)
                    g[a] = dims[a] + 1 if high else 0
                    av = bc[s]["a"]; bv = bc[s]["b"]
                    for k in ix:
                        av = av[k]; bv = bv[k]
                    q = dec(av) / (opsdrive.gscale(cfg, a, P) * dend)
                    hi = at(tuple(g)) if high else at(tuple(P))
                    lo = at(tuple(P)) if high else at(tuple(g))
                    cv = (dec(bv) / 2 + q) * hi + (dec(bv) / 2 - q) * lo
                    # on a periodic axis a, b, c are to be ignored: make them INCONSISTENT with the target, so that
                    # a solver that falls back to the Robin rows there cannot reproduce it
                    return enc(cv + 1 if is_periodic(a) else cv)
                bc[s][ckey] = nested(shp, cval)
    return cfg


def bc_with(cfg, ckey, m, d):
    j = {s: dict(v) for s, v in cfg["bc"].items()}
    for s in j:
        j[s] = dict(j[s])
        j[s]["c"] = cfg["bc"][s][ckey]
    return opsdrive.make_bc(m, j, d)


def add_bcs(cfg, ckeys, m, d):
    """BC object whose c is the sum of the listed data sets (for superposition)"""
    np = drive.np()
    bc = bc_with(cfg, ckeys[0], m, d)
    for k in ckeys[1:]:
        other = bc_with(cfg, k, m, d)
        for a in range(d):
            for s in SIDES[a]:
                getattr(bc, s).c[:] = np.asarray(getattr(bc, s).c) + np.asarray(getattr(other, s).c)
    return bc


def spatial_terms(P, c, cfg):
    """list of (kind, object) spatial matrix terms of the configuration, as a user would write them"""
    terms = []
    if cfg["use"]["diff"]:
        terms.append(-P.diffusionTerm(c.D))
    if cfg["conv"] == "central":
        terms.append(P.convectionTerm(c.u))
    elif cfg["conv"] == "upwind":
        terms.append(P.convectionUpwindTerm(c.u))
    if cfg["use"]["lin"]:
        terms.append(P.linearSourceTerm(P.CellVariable(c.m, to_float_array(cfg["beta"]))))
    return terms


def cfg_pick(cfg):
    """a deterministic small integer derived from the configuration (choice of a side)"""
    return sum(q[0] for q in opsdrive._flat_pairs(cfg["phi"])) % 7


def observe(cfg, want):
    P, np = drive.pf(), drive.np()
    from scipy.sparse.linalg import spsolve
    obs = {"flags": {}}
    W = set(want)
    with opsdrive.surrogate_trig(cfg["aunit"] == "sur"), warnings.catch_warnings(), \
            np.errstate(all="ignore"), contextlib.redirect_stdout(io.StringIO()):
        warnings.simplefilter("ignore")
        c = opsdrive.build(cfg)
        d = len(c.dims)
        full = [n + 2 for n in c.dims]
        dt = float(dec(cfg["dt"]))
        alpha_arr = to_float_array(cfg["alpha"])
        alpha = float(alpha_arr.ravel()[0]) if cfg["alpha_scalar"] else P.CellVariable(c.m, alpha_arr)
        xs = to_float_array(cfg["xstar"])
        xs2 = to_float_array(cfg["xstar2"])
        old = to_float_array(cfg["old"])
        old2 = to_float_array(cfg["old2"])
        sp = spatial_terms(P, c, cfg)
        A = sum(sp[1:], sp[0]) if sp else None

        def derive_gamma(x, oldv):
            """gamma on interior cells such that x solves  alpha (x-old)/dt + A x = gamma"""
            v = np.zeros(int(np.prod(full)))
            if A is not None:
                v = v + A @ x.ravel()
            v = v.reshape(full)
            a_arr = alpha_arr
            return interior(v) + a_arr * (interior(x) - oldv) / dt

        def terms_for(var_old, gam):
            t = [P.transientTerm(var_old, dt, alpha)] + list(sp) + [P.constantSourceTerm(P.CellVariable(c.m, gam))]
            return t

        g1 = derive_gamma(xs, old)
        g2 = derive_gamma(xs2, old2)
        obs["gamma"] = lift.lift_array(g1)[0]
        # condition number guard (D2: singular instances are skipped and counted, never judged)
        bc1 = bc_with(cfg, "c", c.m, d)
        v1 = P.CellVariable(c.m, old.copy(), bc1)
        t1 = terms_for(v1, g1)
        Mbc, Rbc = P.boundaryConditionsTerm(bc1)
        Mh = Mbc.copy(); Rh = Rbc.copy()
        for t in t1:
            if isinstance(t, tuple):
                Mh = Mh + t[0]; Rh = Rh + t[1]
            elif t.ndim == 1:
                Rh = Rh + t
            else:
                Mh = Mh + t
        obs["Mbc"] = opsdrive.mat_entries(Mbc, c.dims)
        obs["Rbc"] = opsdrive.vec_nested(Rbc, c.dims)
        cond = np.linalg.cond(Mh.toarray())
        obs["cond"] = float(cond)
        if not np.isfinite(cond) or cond > 1e5:
            obs["skipped"] = "ill-conditioned"
            return obs
        # solver results carry a rounding error of about eps*cond: widen the lifting tolerance
        # accordingly and bound the denominator so that the lift stays unambiguous
        tol_c = max(lift.TOL, 2e-15 * cond)
        q_c = max(64, min(lift.QMAX, int((1e-6 / (0.61 * tol_c)) ** 0.5)))     # coincidental lift < 1e-6

        far = obs.setdefault("_far", {})

        def lift_sol(arr, target=None, name=None):
            """lift a solver result; with `target` (the exact field the result must equal) also record whether the
            result is FAR from it (beyond anything rounding can explain at the admitted condition numbers): an
            unliftable value then decides the clause (failing), a near one leaves it undecided"""
            if target is not None:
                a_ = np.asarray(arr, dtype=float)
                t_ = np.asarray(target, dtype=float)
                if a_.shape != t_.shape:
                    a_ = interior(a_) if a_.ndim == t_.ndim and a_.size > t_.size else a_
                    t_ = interior(t_) if t_.size > a_.size else t_
                mask = live_mask(a_.shape) if a_.shape == tuple(full) else np.ones(a_.shape, dtype=bool)
                dev = np.abs(a_ - t_)[mask] if a_.shape == t_.shape else np.array([np.inf])
                ref = np.maximum(1.0, np.abs(t_))[mask] if a_.shape == t_.shape else np.array([1.0])
                far[name] = bool(far.get(name, False) or not np.all(np.isfinite(dev)) or np.any(dev > 1e-6 * ref))
            return lift.lift_array(arr, tol=tol_c, qmax=q_c)[0]

        def live_mask(shape):
            """interior and face-ghost cells (the inert edge / corner cells carry no information)"""
            idx = np.indices(shape)
            deg = sum(((idx[a_] == 0) | (idx[a_] == shape[a_] - 1)).astype(int) for a_ in range(len(shape)))
            return deg <= 1
        ids_before = id(v1)
        t1_ids = [id(t) for t in t1]
        ret = P.solvePDE(v1, t1)
        obs["flags"]["same_object"] = bool(ret is v1 and id(ret) == ids_before)
        # the term list handed over is the caller's: it comes back with the same objects in it
        obs["flags"]["terms_untouched"] = bool([id(t) for t in t1] == t1_ids)
        obs["r_solve"] = lift_sol(np.asarray(v1._value), xs, "r_solve")
        # the same system through solveMatrixPDE
        vm = P.solveMatrixPDE(c.m, Mh, Rh)
        obs["r_matrix"] = lift_sol(np.asarray(vm.value))
        obs["Mhand"] = opsdrive.mat_entries(Mh, c.dims)
        obs["Rhand"] = opsdrive.vec_nested(Rh, c.dims)
        # external solver: must receive the identical system; what it returns is what is stored
        seen = {}

        def recording(Mx, bx):
            seen["M"] = Mx.copy(); seen["b"] = np.array(bx, copy=True)
            return xs2.ravel().copy()
        v_ext = P.CellVariable(c.m, old.copy(), bc_with(cfg, "c", c.m, d))
        P.solvePDE(v_ext, terms_for(v_ext, g1), externalsolver=recording)
        obs["flags"]["external_called"] = "M" in seen
        if "M" in seen:
            obs["Mext"] = opsdrive.mat_entries(seen["M"], c.dims)
            obs["Rext"] = opsdrive.vec_nested(seen["b"], c.dims)
        else:       # the solver that was passed in was never called: nothing to compare, the clause fails
            obs["Mext"] = opsdrive.Entries()
            obs["Rext"] = opsdrive.vec_nested(np.zeros(int(np.prod(full))), c.dims)
        obs["r_ext"] = lift_sol(np.asarray(v_ext.value), interior(xs2), "r_ext")
        # algebraically identical presentations of the term list
        variants = {}
        tr = P.transientTerm(P.CellVariable(c.m, old.copy(), bc_with(cfg, "c", c.m, d)), dt, alpha)
        gam_vec = P.constantSourceTerm(P.CellVariable(c.m, g1))
        lists = {
            "reversed": lambda: [gam_vec] + list(reversed(sp)) + [tr],
            "split": lambda: [tr] + [0.5 * t for t in sp] + [0.5 * t for t in sp] + [0.25 * gam_vec] * 4,
            "negneg": lambda: [(-(-tr[0]), -(-tr[1]))] + [-(-t) for t in sp] + [-(-gam_vec)],
            "unpaired": lambda: [tr[0], tr[1]] + list(sp) + [gam_vec],
            "paired": lambda: [(tr[0] + (sum(sp[1:], sp[0]) if sp else 0 * tr[0]), tr[1] + gam_vec)],
        }
        for name, mk in lists.items():
            vv = P.CellVariable(c.m, old.copy(), bc_with(cfg, "c", c.m, d))
            P.solvePDE(vv, mk())
            variants[name] = lift_sol(np.asarray(vv._value), xs, "r_variants")
        obs["r_variants"] = variants
        # superposition: data of target 1 + data of target 2 -> target 1 + target 2
        bc12 = add_bcs(cfg, ["c", "c2"], c.m, d)
        v12 = P.CellVariable(c.m, old + old2, bc12)
        P.solvePDE(v12, terms_for(v12, g1 + g2))
        obs["r_sum"] = lift_sol(np.asarray(v12._value))
        v2 = P.CellVariable(c.m, old2.copy(), bc_with(cfg, "c2", c.m, d))
        P.solvePDE(v2, terms_for(v2, g2))
        obs["r_solve2"] = lift_sol(np.asarray(v2._value))
        # multi-step history: after a solve only the datum c of every side is updated in place (slice
        # assignment), then the same system is solved again: the new step must honour the new data
        v_h = P.CellVariable(c.m, old.copy(), bc_with(cfg, "c", c.m, d))
        P.solvePDE(v_h, terms_for(v_h, g1))
        for a in range(d):
            for s_ in SIDES[a]:
                side = getattr(v_h.BCs, s_)
                newc = to_float_array(cfg["bc"][s_]["c2"]).reshape(side.c.shape)
                if cfg_pick(cfg) % 2:
                    side.c = newc              # assignment through the property (every side of this episode)
                else:
                    side.c[...] = newc         # slice assignment into the tracked array
        # (no assignment to .value in between: only the boundary data changed)
        P.solvePDE(v_h, terms_for(v_h, derive_gamma(xs2, interior(xs))))
        obs["r_history"] = lift_sol(np.asarray(v_h._value), xs2, "r_history")
        # a call that raises while it assembles (a vector of the wrong size after valid terms), then the corrected
        # call on the same variable: the failed attempt must leave nothing behind
        v_r = P.CellVariable(c.m, old.copy(), bc_with(cfg, "c", c.m, d))
        try:
            P.solvePDE(v_r, terms_for(v_r, g1) + [np.ones(2)])
            obs["flags"]["bad_term_rejected"] = False
        except Exception:       # noqa: BLE001
            obs["flags"]["bad_term_rejected"] = True
        P.solvePDE(v_r, terms_for(v_r, g1))
        obs["r_retry"] = lift_sol(np.asarray(v_r._value), xs, "r_retry")
        # multi-step history with a per-cell alpha FIELD kept as one CellVariable object: a step, then alpha is given
        # new values in place (value assignment + apply_BCs, as a coefficient that depends on the solution is
        # refreshed in a time loop), then a second step with the same dt: the second step is the backward-Euler step
        # with the NEW alpha in the matrix and in the right-hand side
        al = P.CellVariable(c.m, alpha_arr * np.ones(tuple(c.dims)))
        v_a = P.CellVariable(c.m, old.copy(), bc_with(cfg, "c", c.m, d))
        sp_g = lambda gam: list(sp) + [P.constantSourceTerm(P.CellVariable(c.m, gam))]
        P.solvePDE(v_a, [P.transientTerm(v_a, dt, al)] + sp_g(g1))
        mid_a = np.asarray(v_a.value).copy()
        alpha2 = 2.0 * alpha_arr * np.ones(tuple(c.dims)) + 1.0 + (np.arange(int(np.prod(c.dims))).reshape(tuple(c.dims)) % 2)
        al.value = alpha2
        al.apply_BCs()
        for a in range(d):                     # the target x*2 belongs to the boundary data c2 (as in C12_History)
            for s_ in SIDES[a]:
                side = getattr(v_a.BCs, s_)
                side.c = to_float_array(cfg["bc"][s_]["c2"]).reshape(side.c.shape)
        if np.all(np.isfinite(mid_a)) and np.max(np.abs(mid_a)) < 1e6:
            v2a = np.zeros(int(np.prod(full)))
            if A is not None:
                v2a = v2a + A @ xs2.ravel()
            g_a = interior(v2a.reshape(full)) + alpha2 * (interior(xs2) - mid_a) / dt
            t_a = [P.transientTerm(v_a, dt, al)] + sp_g(g_a)
            # the second system has another diagonal (alpha2/dt): the same guard as for the first one - a singular or
            # ill-conditioned instance (alpha2/dt meeting an eigenvalue of -A) is outside "any non-singular coefficient
            # choice" and is not judged
            M_a = P.boundaryConditionsTerm(v_a.BCs)[0].copy()
            for t in t_a:
                if isinstance(t, tuple):
                    M_a = M_a + t[0]
                elif t.ndim != 1:
                    M_a = M_a + t
            cond_a = np.linalg.cond(M_a.toarray())
            if np.isfinite(cond_a) and cond_a <= 1e5:
                P.solvePDE(v_a, t_a)
                obs["r_history_alpha"] = lift_sol(np.asarray(v_a._value), xs2, "r_history_alpha")
        # multi-step history with a boundary-KIND switch: one side is made periodic, a step is taken, the side
        # is switched back (nothing else is touched), and the next step must be the step of the configured
        # (non-periodic) problem again: target x* from the state the first step left behind
        pax = [a for a in range(d) if drive.AXIS_LABELS[cfg["cls"]][a] != "r"
               and not (cfg["cls"] == "SphericalGrid3D" and drive.AXIS_LABELS[cfg["cls"]][a] == "theta")
               and not any(cfg["bc"][s_]["periodic"] for s_ in SIDES[a])]
        if pax:
            try:
                v_p = P.CellVariable(c.m, old.copy(), bc_with(cfg, "c", c.m, d))
                side = getattr(v_p.BCs, SIDES[pax[0]][cfg_pick(cfg) % 2])
                side.periodic = True
                P.solvePDE(v_p, terms_for(v_p, g1))
                mid = np.asarray(v_p.value).copy()
                if np.all(np.isfinite(mid)) and np.max(np.abs(mid)) < 1e6:
                    side.periodic = False
                    P.solvePDE(v_p, terms_for(v_p, derive_gamma(xs, mid)))
                    obs["r_history_per"] = lift_sol(np.asarray(v_p._value), xs, "r_history_per")
            except Exception:       # noqa: BLE001  (a singular intermediate periodic problem: clause not evaluated)
                pass
        # pieces needed by the residual clause (C12), all lifted from the code
        obs["Aspatial"] = opsdrive.mat_entries(A, c.dims) if A is not None else []
        # steady state as a fixed point: gamma_s := A x*, start from x*  (any dt, alpha)
        if A is not None:
            gs = interior((A @ xs.ravel()).reshape(full))
            vs = P.CellVariable(c.m, interior(xs).copy(), bc_with(cfg, "c", c.m, d))
            P.solvePDE(vs, [P.transientTerm(vs, dt, alpha)] + list(sp) + [P.constantSourceTerm(P.CellVariable(c.m, gs))])
            obs["r_fixed"] = lift_sol(np.asarray(vs._value), xs, "r_fixed")
        # limits (floating point, supporting only): dt -> infinity returns the steady solution, dt -> 0 the
        # old field, implicit and explicit steps agree to O(dt^2)
        lim = {"checked": False}
        if A is not None:
            Msteady = Mbc + A
            cs = np.linalg.cond(Msteady.toarray())
            if np.isfinite(cs) and cs < 1e6:
                gs = interior((A @ xs.ravel()).reshape(full))
                def step(dtv, start, explicit=False):
                    vv = P.CellVariable(c.m, start.copy(), bc_with(cfg, "c", c.m, d))
                    if explicit:
                        rhs_e = P.constantSourceTerm(P.CellVariable(c.m, gs)) - A @ np.asarray(vv._value).ravel()
                        return np.asarray(P.solveExplicitPDE(vv, dtv, rhs_e).value)
                    P.solvePDE(vv, [P.transientTerm(vv, dtv, 1.0)] + list(sp) + [P.constantSourceTerm(P.CellVariable(c.m, gs))])
                    return np.asarray(vv.value)
                scale = max(1.0, float(np.abs(xs).max()), float(np.abs(old).max()))
                e_inf = float(np.abs(step(1e12, old) - interior(xs)).max()) / scale
                e_zero = float(np.abs(step(1e-12, old) - old).max()) / scale
                d1 = float(np.abs(step(1e-3, old) - step(1e-3, old, explicit=True)).max())
                d2 = float(np.abs(step(5e-4, old) - step(5e-4, old, explicit=True)).max())
                fpx = lambda x: int(min(2_000_000_000, round(x * 1e9))) if np.isfinite(x) else 2_000_000_000
                lim = {"checked": True, "inf": fpx(e_inf), "zero": fpx(e_zero),
                       "ratio_milli": int(round(1000 * d1 / d2)) if d2 > 1e-13 else 4000, "d1": fpx(d1)}
        obs["limits"] = lim
        # explicit step:  old + dt*RHS on interior cells, boundary values re-imposed, input untouched
        vin = P.CellVariable(c.m, old.copy(), bc_with(cfg, "c", c.m, d))
        rhs = np.zeros(int(np.prod(full)))
        if A is not None and cfg["cls"] != "SphericalGrid3D":
            rhs = -(A @ xs.ravel())       # any RHS vector will do; small integers keep it liftable
        rhs = rhs + P.constantSourceTerm(P.CellVariable(c.m, to_float_array(cfg["gamma"])))
        snap = snapshot(vin)
        # explicit steps are taken with dt <= 1 (a large dt only amplifies the rounding of RHS
        # beyond what can be lifted; the clause holds for any dt and RHS)
        dte = Fr(1, 10) if dec(cfg["dt"]) in (Fr(1, 10), Fr(1000)) else Fr(1)
        obs["dt_explicit"] = enc(dte)
        rhs0 = np.array(rhs, copy=True)
        vex = P.solveExplicitPDE(vin, float(dte), rhs)
        obs["flags"]["explicit_rhs_untouched"] = bool(np.array_equal(np.asarray(rhs), rhs0))
        # a second call with the very same objects returns the very same numbers
        vex2 = P.solveExplicitPDE(vin, float(dte), rhs)
        obs["flags"]["explicit_repeat_same"] = bool(np.asarray(vex2._value).tobytes() == np.asarray(vex._value).tobytes())
        rhs = rhs0
        obs["flags"]["explicit_input_untouched"] = bool(snapshot(vin) == snap)
        obs["flags"]["explicit_new_object"] = bool(vex is not vin and not np.shares_memory(vex._value, vin._value))
        obs["in_explicit"] = lift.lift_array(np.asarray(vin._value))[0]
        obs["rhs_explicit"] = opsdrive.vec_nested(rhs, c.dims)
        obs["r_explicit"] = lift.lift_array(np.asarray(vex._value))[0]
        # ... and the returned variable remains usable by the implicit solver
        try:
            P.solvePDE(vex, terms_for(vex, derive_gamma(xs, interior(np.asarray(vex._value)))))
            obs["flags"]["explicit_then_implicit"] = "ok"
            obs["r_after_explicit"] = lift_sol(np.asarray(vex._value), xs, "r_after_explicit")
        except Exception as ex:      # noqa: BLE001
            obs["flags"]["explicit_then_implicit"] = type(ex).__name__
            obs["r_after_explicit"] = obs["r_explicit"]
    return obs


def snapshot(v):
    """bytes of everything reachable from a CellVariable that a call must not modify"""
    np = drive.np()
    parts = [np.asarray(v._value).tobytes()]
    for s in ("left", "right", "bottom", "top", "back", "front"):
        side = getattr(v.BCs, s)
        parts += [np.asarray(side.a).tobytes(), np.asarray(side.b).tobytes(), np.asarray(side.c).tobytes(),
                  bytes([bool(side.periodic)])]
    return b"|".join(parts)
