#!/bin/sh
# Offline setup: nothing to build (Python + TLA+); verify the tools and parse every spec.
set -e
HERE="$(cd "$(dirname "$0")" && pwd)"
cd "$HERE"
command -v java >/dev/null
test -f /opt/veriftools/tla/tla2tools.jar
/venv/bin/python -c "import numpy, scipy"
mkdir -p evidence replays .work
for f in spec/*.tla; do
  case "$f" in *_TTrace*) continue;; esac
  (cd spec && java -cp /opt/veriftools/tla/tla2tools.jar:/opt/veriftools/tla/CommunityModules-deps.jar tla2sany.SANY "$(basename "$f")" >/dev/null 2>&1) || { echo "SANY failed on $f"; exit 1; }
done
./check selftest >/dev/null || { echo "machinery self-test failed"; exit 1; }
echo "setup ok"
