--------------------------- MODULE FVLifecycleInd ---------------------------
(***************************************************************************)
(* Unbounded-history argument for C09 (extra; TLC remains the registered   *)
(* checker).  The core of FVLifecycle - the same actions without the       *)
(* history variables `use' / `last', without the manual flag resets that   *)
(* are outside C09's alphabet, and with the fresh content ids chosen       *)
(* non-deterministically - restated with Apalache type annotations.        *)
(* IndInv is an INDUCTIVE invariant: Apalache checks                       *)
(*        IndInit => IndInv            (length 0)                          *)
(*        IndInv /\ Next => IndInv'    (length 1, from ANY state in IndInv)*)
(* for pools of 3 variables and 3 BC objects, i.e. for histories of every  *)
(* length.  IndInv contains the property: a variable whose BC object was   *)
(* never shared and whose flags are clean has a fresh cache - so a solve   *)
(* whose entry check does not fire never uses a stale boundary term.       *)
(***************************************************************************)
EXTENDS Integers, FiniteSets

CONSTANTS
  \* @type: Set(Str);
  BCs,
  \* @type: Set(Str);
  Vars,
  \* @type: Set(Str);
  Sides

VARIABLES
  \* @type: Str -> Bool;
  bcAlive,
  \* @type: Str -> Int;
  bcC,
  \* @type: Str -> Set(Str);
  bcDirty,
  \* @type: Str -> Bool;
  everShared,
  \* @type: Str -> Bool;
  alive,
  \* @type: Str -> Str;
  bcOf,
  \* @type: Str -> Int;
  intC,
  \* @type: Str -> Int;
  ghostI,
  \* @type: Str -> Int;
  ghostB,
  \* @type: Str -> Int;
  cacheFrom,
  \* @type: Str -> Bool;
  valDirty

Ids == 0..12
AliveVars == {v \in Vars : alive[v]}
UsersOf(b) == {v \in AliveVars : bcOf[v] = b}
NeedsApply(v) == bcDirty[bcOf[v]] # {} \/ valDirty[v]

\* ---- actions (cf. FVLifecycle) ---------------------------------------------------------
NewBC(b, c) ==
  /\ ~bcAlive[b]
  /\ bcAlive' = [bcAlive EXCEPT ![b] = TRUE]
  /\ bcC' = [bcC EXCEPT ![b] = c]
  /\ bcDirty' = [bcDirty EXCEPT ![b] = {}]
  /\ everShared' = [everShared EXCEPT ![b] = FALSE]
  /\ UNCHANGED <<alive, bcOf, intC, ghostI, ghostB, cacheFrom, valDirty>>

NewVar(v, b, c) ==
  /\ ~alive[v] /\ bcAlive[b]
  /\ alive' = [alive EXCEPT ![v] = TRUE]
  /\ bcOf' = [bcOf EXCEPT ![v] = b]
  /\ intC' = [intC EXCEPT ![v] = c]
  /\ ghostI' = [ghostI EXCEPT ![v] = c]
  /\ ghostB' = [ghostB EXCEPT ![v] = bcC[b]]
  /\ cacheFrom' = [cacheFrom EXCEPT ![v] = bcC[b]]
  /\ valDirty' = [valDirty EXCEPT ![v] = FALSE]
  /\ everShared' = [everShared EXCEPT ![b] = everShared[b] \/ UsersOf(b) # {}]
  /\ UNCHANGED <<bcAlive, bcC, bcDirty>>

\* CellVariable(mesh, value) / the result of solveMatrixPDE: a variable with its own new BC object
NewVarOwn(v, b, c, cb) ==
  /\ ~alive[v] /\ ~bcAlive[b]
  /\ alive' = [alive EXCEPT ![v] = TRUE]
  /\ bcOf' = [bcOf EXCEPT ![v] = b]
  /\ bcAlive' = [bcAlive EXCEPT ![b] = TRUE]
  /\ bcC' = [bcC EXCEPT ![b] = cb]
  /\ bcDirty' = [bcDirty EXCEPT ![b] = {}]
  /\ everShared' = [everShared EXCEPT ![b] = FALSE]
  /\ intC' = [intC EXCEPT ![v] = c]
  /\ ghostI' = [ghostI EXCEPT ![v] = c]
  /\ ghostB' = [ghostB EXCEPT ![v] = cb]
  /\ cacheFrom' = [cacheFrom EXCEPT ![v] = cb]
  /\ valDirty' = [valDirty EXCEPT ![v] = FALSE]

EditBC(b, s, c) ==
  /\ bcAlive[b] /\ s \in Sides
  /\ c # bcC[b]
  /\ bcC' = [bcC EXCEPT ![b] = c]
  /\ bcDirty' = [bcDirty EXCEPT ![b] = @ \union {s}]
  /\ UNCHANGED <<bcAlive, everShared, alive, bcOf, intC, ghostI, ghostB, cacheFrom, valDirty>>

AssignValue(v, c) ==
  /\ alive[v]
  /\ intC' = [intC EXCEPT ![v] = c]
  /\ valDirty' = [valDirty EXCEPT ![v] = TRUE]
  /\ UNCHANGED <<bcAlive, bcC, bcDirty, everShared, alive, bcOf, ghostI, ghostB, cacheFrom>>

UpdateValue(v, w) ==
  /\ alive[v] /\ alive[w] /\ v # w
  /\ intC' = [intC EXCEPT ![v] = intC[w]]
  /\ ghostI' = [ghostI EXCEPT ![v] = ghostI[w]]
  /\ ghostB' = [ghostB EXCEPT ![v] = ghostB[w]]
  /\ valDirty' = [valDirty EXCEPT ![v] = TRUE]
  /\ UNCHANGED <<bcAlive, bcC, bcDirty, everShared, alive, bcOf, cacheFrom>>

\* copy() and every operator / funceval: a new variable with a deep copy of the BC object
CopyLike(v, w, b, c) ==
  /\ alive[v] /\ ~alive[w] /\ ~bcAlive[b]
  /\ alive' = [alive EXCEPT ![w] = TRUE]
  /\ bcOf' = [bcOf EXCEPT ![w] = b]
  /\ bcAlive' = [bcAlive EXCEPT ![b] = TRUE]
  /\ bcC' = [bcC EXCEPT ![b] = bcC[bcOf[v]]]
  /\ bcDirty' = [bcDirty EXCEPT ![b] = bcDirty[bcOf[v]]]
  /\ everShared' = [everShared EXCEPT ![b] = FALSE]
  /\ intC' = [intC EXCEPT ![w] = c]
  /\ ghostI' = [ghostI EXCEPT ![w] = ghostI[v]]
  /\ ghostB' = [ghostB EXCEPT ![w] = ghostB[v]]
  /\ cacheFrom' = [cacheFrom EXCEPT ![w] = bcC[bcOf[v]]]
  /\ valDirty' = [valDirty EXCEPT ![w] = FALSE]

ApplyBCs(v) ==
  /\ alive[v]
  /\ ghostI' = [ghostI EXCEPT ![v] = intC[v]]
  /\ ghostB' = [ghostB EXCEPT ![v] = bcC[bcOf[v]]]
  /\ cacheFrom' = [cacheFrom EXCEPT ![v] = bcC[bcOf[v]]]
  /\ bcDirty' = [bcDirty EXCEPT ![bcOf[v]] = {}]
  /\ valDirty' = [valDirty EXCEPT ![v] = FALSE]
  /\ UNCHANGED <<bcAlive, bcC, everShared, alive, bcOf, intC>>

\* solvePDE: (entry check) ; use cache ; store the new values ; apply_BCs
SolvePDE(v, c) ==
  /\ alive[v]
  /\ intC' = [intC EXCEPT ![v] = c]
  /\ ghostI' = [ghostI EXCEPT ![v] = c]
  /\ ghostB' = [ghostB EXCEPT ![v] = bcC[bcOf[v]]]
  /\ cacheFrom' = [cacheFrom EXCEPT ![v] = bcC[bcOf[v]]]
  /\ bcDirty' = [bcDirty EXCEPT ![bcOf[v]] = {}]
  /\ valDirty' = [valDirty EXCEPT ![v] = FALSE]
  /\ UNCHANGED <<bcAlive, bcC, everShared, alive, bcOf>>

\* solveExplicitPDE: entry check on v ; new variable r sharing v's BC object
SolveExplicit(v, r, c) ==
  /\ alive[v] /\ ~alive[r]
  /\ alive' = [alive EXCEPT ![r] = TRUE]
  /\ bcOf' = [bcOf EXCEPT ![r] = bcOf[v]]
  /\ intC' = [intC EXCEPT ![r] = c]
  /\ ghostI' = [ghostI EXCEPT ![r] = c, ![v] = IF NeedsApply(v) THEN intC[v] ELSE @]
  /\ ghostB' = [ghostB EXCEPT ![r] = bcC[bcOf[v]], ![v] = IF NeedsApply(v) THEN bcC[bcOf[v]] ELSE @]
  /\ cacheFrom' = [cacheFrom EXCEPT ![r] = bcC[bcOf[v]], ![v] = IF NeedsApply(v) THEN bcC[bcOf[v]] ELSE @]
  /\ bcDirty' = [bcDirty EXCEPT ![bcOf[v]] = {}]
  /\ valDirty' = [valDirty EXCEPT ![r] = FALSE, ![v] = FALSE]
  /\ everShared' = [everShared EXCEPT ![bcOf[v]] = TRUE]
  /\ UNCHANGED <<bcAlive, bcC>>

Next ==
  \/ \E b \in BCs, c \in Ids : NewBC(b, c)
  \/ \E v \in Vars, b \in BCs, c \in Ids : NewVar(v, b, c)
  \/ \E v \in Vars, b \in BCs, c \in Ids, cb \in Ids : NewVarOwn(v, b, c, cb)
  \/ \E b \in BCs, s \in Sides, c \in Ids : EditBC(b, s, c)
  \/ \E v \in Vars, c \in Ids : AssignValue(v, c)
  \/ \E v \in Vars, w \in Vars : UpdateValue(v, w)
  \/ \E v \in Vars, w \in Vars, b \in BCs, c \in Ids : CopyLike(v, w, b, c)
  \/ \E v \in Vars : ApplyBCs(v)
  \/ \E v \in Vars, c \in Ids : SolvePDE(v, c)
  \/ \E v \in Vars, r \in Vars, c \in Ids : SolveExplicit(v, r, c)

\* ---- the inductive invariant -----------------------------------------------------------
TypeOK ==
  /\ bcAlive \in [BCs -> BOOLEAN] /\ bcC \in [BCs -> Ids] /\ bcDirty \in [BCs -> SUBSET Sides]
  /\ everShared \in [BCs -> BOOLEAN] /\ alive \in [Vars -> BOOLEAN] /\ bcOf \in [Vars -> BCs]
  /\ intC \in [Vars -> Ids] /\ ghostI \in [Vars -> Ids] /\ ghostB \in [Vars -> Ids]
  /\ cacheFrom \in [Vars -> Ids] /\ valDirty \in [Vars -> BOOLEAN]
IndInv ==
  /\ TypeOK
  /\ \A v \in Vars : alive[v] => bcAlive[bcOf[v]]
  \* a BC object that was never shared has at most one user
  /\ \A v \in Vars, w \in Vars : (alive[v] /\ alive[w] /\ v # w /\ bcOf[v] = bcOf[w]) => everShared[bcOf[v]]
  \* C09: own BC object, clean BC flags  =>  the cached boundary term is fresh
  /\ \A v \in Vars : (alive[v] /\ ~everShared[bcOf[v]] /\ bcDirty[bcOf[v]] = {}) => cacheFrom[v] = bcC[bcOf[v]]
IndInit == IndInv
\* the base case: nothing exists yet
Init ==
  /\ bcAlive = [b \in BCs |-> FALSE] /\ bcC = [b \in BCs |-> 0] /\ bcDirty = [b \in BCs |-> {}]
  /\ everShared = [b \in BCs |-> FALSE] /\ alive = [v \in Vars |-> FALSE] /\ bcOf = [v \in Vars |-> "b1"]
  /\ intC = [v \in Vars |-> 0] /\ ghostI = [v \in Vars |-> 0] /\ ghostB = [v \in Vars |-> 0]
  /\ cacheFrom = [v \in Vars |-> 0] /\ valDirty = [v \in Vars |-> FALSE]
\* NOT inductive (expected to fail): without the "never shared" premise the freshness claim is false -
\* this is the shared-BC finding KF-C09-shared-bc-stale-cache
FreshEvenIfShared ==
  \A v \in Vars : (alive[v] /\ bcDirty[bcOf[v]] = {}) => cacheFrom[v] = bcC[bcOf[v]]
\* what the inductive invariant gives for a solve (its entry check fires iff NeedsApply):
\* whenever it does not fire on an unshared BC object, the cache it will use is fresh
C09_FreshAtUseUnshared ==
  \A v \in Vars : (alive[v] /\ ~everShared[bcOf[v]] /\ ~NeedsApply(v)) => cacheFrom[v] = bcC[bcOf[v]]
=============================================================================
