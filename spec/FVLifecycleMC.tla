--------------------------- MODULE FVLifecycleMC ---------------------------
(* Model-checking wrapper of FVLifecycle: only adds the symmetry set used by the *)
(* exhaustive configurations (FVLifecycle_c09*.cfg).                             *)
EXTENDS FVLifecycle
Symm == Permutations(Vars) \cup Permutations(BCs)
=============================================================================
