SPECIFICATION Spec
CONSTANTS
  PMax = 60
  Dens = {1, 2, 3, 4, 5, 8}
  ExtraNames = {"NoSuchLimiter", "superbee"}
INVARIANT InvOne
INVARIANT InvTVD
INVARIANT InvClip
INVARIANT InvNonNegFamily
INVARIANT InvSymmetric
INVARIANT InvFallback
