SPECIFICATION Spec
CONSTANTS
  LinVals = {0, 1, 2, 4}
  MaxN = 3
  MaxN3 = 2
  ClassSel <- Classes
  Emit = TRUE
INVARIANT InvWellFormed
INVARIANT InvC10
INVARIANT InvPartition
INVARIANT InvNL
