SPECIFICATION Spec
CONSTANTS
  ClassSel <- Classes
  LinVals = {0, 1, 3}
  MaxN = 2
  MaxN3 = 1
  Emit = FALSE
INVARIANT DC05_Diffusion
INVARIANT DC05_Central
INVARIANT DC05_Upwind
INVARIANT DC06
INVARIANT DC01
INVARIANT DC01_Geometric
INVARIANT DC01_Open
INVARIANT DC04
INVARIANT DC03
INVARIANT DC07
INVARIANT DC17
INVARIANT DC08
INVARIANT DC11
