SPECIFICATION TSpec
