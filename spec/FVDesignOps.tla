----------------------------- MODULE FVDesignOps -----------------------------
(***************************************************************************)
(* Design-level model of the discretisation: TLC checks that the           *)
(* REFERENCE semantics (FVOperators / FVBoundary) has the listed           *)
(* properties on a bounded configuration space, exhaustively.              *)
(*                                                                         *)
(* A behaviour is  Init -> Pick -> Eval.  Pick chooses a grid (class,      *)
(* faces), one coefficient field and one boundary-condition kind; because  *)
(* every operator is linear in its coefficient field and every face        *)
(* contributes independently (with a dependence on the sign of the upwind  *)
(* velocity of that face only), the unit fields  +-e_f  (one face f) and   *)
(* the constant field exhaust the coefficient space.  The properties are   *)
(* the same predicates of FVProperties that FVTraceOps evaluates on the    *)
(* values observed from the code.                                          *)
(***************************************************************************)
EXTENDS FVProperties, Json

CONSTANTS ClassSel,       \* subset of Classes
          LinVals,        \* integers usable as Cartesian / radial / z face positions
          MaxN, MaxN3,    \* max cells per axis (2D/1D) and for 3D classes
          Emit            \* print the picked configurations (replayed into the code by the harness)

VARIABLES phase, cfg
vars == <<phase, cfg>>

AngVals(cls, a) == IF cls = "SphericalGrid3D" /\ AxisLabels(cls)[a] = "theta"
                   THEN {<<1, 1>>, <<2, 1>>, <<3, 1>>}
                   ELSE {<<1, 2>>, <<1, 1>>, <<2, 1>>}
AxisVals(cls, a) == IF IsAngular(cls, a) THEN AngVals(cls, a)
                    ELSE IF cls = "SphericalGrid3D" THEN {R(i) : i \in LinVals \cap {0, 1, 2, 4}}
                    ELSE {R(i) : i \in LinVals}
NMax(cls) == IF Dim(cls) = 3 THEN MaxN3 ELSE MaxN
FaceSeqs(cls, a) ==
  {SetToSortSeq(S, RLt) : S \in {T \in SUBSET AxisVals(cls, a) : Cardinality(T) \in 2..(NMax(cls) + 1)}}
Tuples(cls, F(_)) ==
  CASE Dim(cls) = 1 -> {<<x>> : x \in F(1)}
    [] Dim(cls) = 2 -> {<<x, y>> : x \in F(1), y \in F(2)}
    [] OTHER        -> {<<x, y, z>> : x \in F(1), y \in F(2), z \in F(3)}
Grids(cls) == {[cls |-> cls, faces |-> f, aunit |-> IF cls = "SphericalGrid3D" THEN "sur" ELSE "rad"] :
                 f \in Tuples(cls, LAMBDA a : FaceSeqs(cls, a))}

\* coefficient fields: the constant field and +-unit fields
ConstFace(g, q) == [id \in FaceIds(g) |-> q]
UnitFace(g, f0, q) == [id \in FaceIds(g) |-> IF id = f0 THEN q ELSE RZero]
CoefFields(g) == {ConstFace(g, ROne)} \cup {UnitFace(g, f0, q) : f0 \in FaceIds(g), q \in {ROne, RNeg(ROne)}}
BCKinds == {"dirichlet", "neumann", "robin", "periodic"}
BCFor(g, kind) ==
  [s \in SideNames(g) |->
     LET a == SideAxisOf(s)
         per == kind = "periodic" /\ ~IsRadial(g.cls, a)
               /\ ~(g.cls = "SphericalGrid3D" /\ AxisLabels(g.cls)[a] = "theta")
     IN  [a |-> [P \in Adjacent(g, s) |-> IF kind = "dirichlet" THEN RZero ELSE IF kind = "robin" THEN R(2) ELSE ROne],
          b |-> [P \in Adjacent(g, s) |-> IF kind = "dirichlet" THEN ROne ELSE IF kind = "robin" THEN R(-3) ELSE RZero],
          c |-> [P \in Adjacent(g, s) |-> R(IF IsHigh(s) THEN 2 ELSE -1)],
          periodic |-> per]]

Init == phase = "init" /\ cfg = <<>>
Pick == /\ phase = "init"
        /\ \E cls \in ClassSel : \E g \in Grids(cls) : \E C \in CoefFields(g) : \E k \in BCKinds :
              /\ cfg' = [g |-> g, C |-> C, bck |-> k]
              /\ (Emit => PrintT("@@ " \o ToJson([cls |-> g.cls, faces |-> g.faces, aunit |-> g.aunit, bck |-> k,
                      coef |-> {<<id[1], id[2], C[id]>> : id \in {x \in FaceIds(g) : ~RIsZero(C[x])}}])))
        /\ phase' = "picked"
Eval == phase = "picked" /\ phase' = "done" /\ cfg' = cfg
Next == Pick \/ Eval
Spec == Init /\ [][Next]_vars

-----------------------------------------------------------------------------
Done == phase = "done"
G == cfg.g
C == cfg.C
\* matrix whose column c is the vector Op(e_c)
ChainMat(g, Op(_)) ==
  LET cols == [c \in AllCells(g) |-> Op(Unit(g, c))]
  IN  Prune([p \in Interior(g) \X AllCells(g) |-> cols[p[2]][p[1]]])
AbsField(F) == [id \in DOMAIN F |-> RAbs(F[id])]
ZeroOnBoundary(g, F) == \A id \in FaceIds(g) : IsBoundaryFace(g, id[1], id[2]) => RIsZero(F[id])
GeoVolume(g) == [c \in AllCells(g) |-> IF c \in Interior(g) THEN VolGeom(g, c) ELSE RZero]
\* the volumes with respect to which the reference scheme telescopes
SchemeVolume(g) == IF g.cls = "SphericalGrid3D" THEN MidVolume(g) ELSE GeoVolume(g)

\* C05: rows = explicit chain, for diffusion (D = |C|), central and upwind advection (u = C)
DC05_Diffusion == Done =>
   C05_Agree(G, DiffusionRows(G, AbsField(C)),
             ChainMat(G, LAMBDA phi : Div(G, FMul(AbsField(C), Grad(G, phi)))))
DC05_Central == Done =>
   C05_Agree(G, CentralRows(G, C), ChainMat(G, LAMBDA phi : Div(G, FMul(C, LinearMean(G, phi)))))
DC05_Upwind == Done =>
   C05_Agree(G, UpwindRows(G, C, C), ChainMat(G, LAMBDA phi : Div(G, FMul(C, UpwindMean(G, phi, C)))))
\* C06: constants
DC06 == Done =>
   /\ C06_DiffConst(G, DiffusionRows(G, AbsField(C)))
   /\ C06_AdvConst(G, CentralRows(G, C), Div(G, C))
   /\ C06_AdvConst(G, UpwindRows(G, C, C), Div(G, C))
\* C01: with zero coefficient on the domain boundary the scheme telescopes w.r.t. its volumes
DC01 == (Done /\ ZeroOnBoundary(G, C)) =>
   /\ C01_ClosedMatrix(G, SchemeVolume(G), DiffusionRows(G, AbsField(C)))
   /\ C01_ClosedMatrix(G, SchemeVolume(G), CentralRows(G, C))
   /\ C01_ClosedMatrix(G, SchemeVolume(G), UpwindRows(G, C, C))
   /\ C01_ClosedVector(G, SchemeVolume(G), Div(G, C))
TestField(g) == [c \in AllCells(g) |-> R(1 + ((LinIdx(g, c) * 7) % 5))]
\* open boundaries: change of the domain integral = net boundary flux, with the TRUE face areas
DC01_Open == Done =>
   LET phi == TestField(G)
       V == SchemeVolume(G)
   IN  /\ C01_OpenMatrix(G, V, DiffusionRows(G, AbsField(C)), phi, FMul(AbsField(C), Grad(G, phi)))
       /\ C01_OpenMatrix(G, V, CentralRows(G, C), phi, FMul(C, LinearMean(G, phi)))
       /\ C01_OpenMatrix(G, V, UpwindRows(G, C, C), phi, FMul(C, UpwindMean(G, phi, C)))
\* the cylindrical and Cartesian families are conservative w.r.t. the TRUE geometric volumes
DC01_Geometric == (Done /\ G.cls # "SphericalGrid3D") => SchemeVolume(G) = GeoVolume(G)
\* C04: terms contribute to interior rows only
DC04 == Done => /\ InteriorRowsOnly(G, DiffusionRows(G, AbsField(C)))
                /\ InteriorRowsOnly(G, CentralRows(G, C))
                /\ InteriorRowsOnly(G, UpwindRows(G, C, C))
\* C03: ghost values satisfy the Robin relation / wrap; the boundary rows encode the same relation
DC03 == Done =>
   LET bc == BCFor(G, cfg.bck)
       full == GhostValues(G, bc, TestField(G))
   IN  NonSingular(G, bc) =>
         /\ C03_Robin(G, bc, full) /\ C03_Periodic(G, bc, full)
         /\ C03_InteriorKept(G, TestField(G), full)
         /\ C03_RowsSatisfied(G, bc, BCRowsM(G, bc), BCRowsRHS(G, bc), full)
         /\ C03_RowsEncodeRobin(G, bc, BCRowsM(G, bc), BCRowsRHS(G, bc))
         /\ C03_RowsOnGhostOnly(G, BCRowsM(G, bc), BCRowsRHS(G, bc))
\* C07: sign structure of -diffusion + upwind for a non-negative D and any u (row sums = div u)
DC07 == Done =>
   LET A == MSub(UpwindRows(G, C, C), DiffusionRows(G, AbsField(C)))
   IN  \A P \in Interior(G) :
         /\ \A p \in MRow(A, P) : p[2] # P => RLe(A[p], RZero)
         /\ RowSum(A, P) = Div(G, C)[P]
\* C08: mirroring a grid along a non-radial axis (faces reflected, coefficient fields reflected, the velocity
\* component along that axis negated) commutes with every reference operator
MirrorAxes(g) == {a \in Axes(g) : ~IsRadial(g.cls, a)
                                  /\ ~(g.cls = "SphericalGrid3D" /\ AxisLabels(g.cls)[a] = "theta")}
Mirrored(g, a) == [g EXCEPT !.faces[a] =
                     [i \in 1..Len(g.faces[a]) |->
                        RSub(RAdd(Lo(g, a), Hi(g, a)), g.faces[a][Len(g.faces[a]) + 1 - i])]]
\* the face of g that a face of the mirrored grid comes from
PreFace(g, a, id) ==
  LET b == id[1]  f == id[2]
  IN  IF b = a THEN <<b, [f EXCEPT ![a] = NCells(g, a) - f[a]]>>
      ELSE <<b, [f EXCEPT ![a] = NCells(g, a) + 1 - f[a]]>>
MirrorFace(g, a, F, flip) ==
  [id \in FaceIds(g) |-> IF flip /\ id[1] = a THEN RNeg(F[PreFace(g, a, id)]) ELSE F[PreFace(g, a, id)]]
DC08 == Done =>
   \A a \in MirrorAxes(G) :
      LET gm == Mirrored(G, a)
          tr == [kind |-> "mirror", axis |-> a]
          Dm == MirrorFace(G, a, AbsField(C), FALSE)
          um == MirrorFace(G, a, C, TRUE)
          phi == TestField(G)
      IN  /\ C08_Geometry(tr, G, gm)
          /\ C08_Apply(tr, G, gm, DiffusionRows(G, AbsField(C)), DiffusionRows(gm, Dm), phi)
          /\ C08_Apply(tr, G, gm, CentralRows(G, C), CentralRows(gm, um), phi)
          /\ C08_Apply(tr, G, gm, UpwindRows(G, C, C), UpwindRows(gm, um, um), phi)
\* C11: the reference means are means - between the two adjacent values, harmonic <= arithmetic for positive
\* data, constants reproduced, upwind = one of the two adjacent values (or their average at a boundary / zero face)
PosField(g) == [c \in AllCells(g) |-> R(1 + ((LinIdx(g, c) * 5) % 7))]
DC11 == Done =>
   LET phi == PosField(G)
       one == [c \in AllCells(G) |-> R(3)]
   IN  /\ C11_Between(G, phi, LinearMean(G, phi)) /\ C11_Between(G, phi, ArithmeticMean(G, phi))
       /\ C11_Between(G, phi, HarmonicMean(G, phi)) /\ C11_Between(G, phi, UpwindMean(G, phi, C))
       /\ \A id \in FaceIds(G) : RLe(HarmonicMean(G, phi)[id], ArithmeticMean(G, phi)[id])
       /\ C11_Const(G, R(3), LinearMean(G, one)) /\ C11_Const(G, R(3), ArithmeticMean(G, one))
       /\ C11_Const(G, R(3), HarmonicMean(G, one)) /\ C11_Const(G, R(3), UpwindMean(G, one, C))
\* C17: rescaling lengths by L (faces of length-like axes) and the coefficient by L^2/T
Scaled(g, L) == [g EXCEPT !.faces = [a \in 1..Len(g.faces) |->
                    IF IsAngular(g.cls, a) THEN g.faces[a]
                    ELSE [i \in 1..Len(g.faces[a]) |-> RMul(L, g.faces[a][i])]]]
DC17 == Done =>
   LET L == R(2)  T == R(3)
       gs == Scaled(G, L)
       Ds == [id \in FaceIds(G) |-> RMul(RDiv(RSq(L), T), AbsField(C)[id])]
       us == [id \in FaceIds(G) |-> RMul(RDiv(L, T), C[id])]
   IN  /\ C17_MatScaled(DiffusionRows(G, AbsField(C)), DiffusionRows(gs, Ds), RInv(T))
       /\ C17_MatScaled(CentralRows(G, C), CentralRows(gs, us), RInv(T))
       /\ C17_MatScaled(UpwindRows(G, C, C), UpwindRows(gs, us, us), RInv(T))
       /\ \A c \in Interior(G) :
             VolGeom(gs, c) = RMul(RPow(L, VolumeLengthPower(G.cls)), VolGeom(G, c))
=============================================================================
