SPECIFICATION Spec
CONSTANTS
  BCs = {b1, b2}
  Vars = {v1, v2}
  Sides = {"s1", "s2"}
  MaxDepth = 4
  UserSharing = FALSE
  ManualReset = FALSE
  UserNoPrecalc = FALSE
  Hows = {"coef", "slice", "utility", "periodic", "view", "aonly", "bonly", "conly"}
  BuildKinds = {}
CONSTRAINT Bounded
ACTION_CONSTRAINT EmitEdge
VIEW view
INVARIANT TypeOK
INVARIANT C09_FreshAtUseUnshared
INVARIANT C09_FreshAfter
