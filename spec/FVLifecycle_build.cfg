SPECIFICATION Spec
CONSTANTS
  BCs = {b1, b2, b3, b4, b5}
  Vars = {v1, v2, v3, v4}
  Sides = {"s1", "s2"}
  MaxDepth = 40
  UserSharing = FALSE
  ManualReset = FALSE
  UserNoPrecalc = FALSE
  Hows = {"coef"}
  BuildKinds = {"diffusionTerm", "convectionTerm", "convectionUpwindTerm", "convectionTVDupwindRHSTerm",
                "transientTerm", "gradientTerm", "divergenceTerm", "linearMean", "arithmeticMean", "upwindMean",
                "linearSourceTerm", "constantSourceTerm", "boundaryConditionsTerm", "cellLocations", "faceLocations"}
INVARIANT Emit
INVARIANT TypeOK
INVARIANT C09_FreshAtUseUnshared
INVARIANT C09_FreshAfter
INVARIANT C14_Independent
