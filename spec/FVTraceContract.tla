-------------------------- MODULE FVTraceContract ---------------------------
(***************************************************************************)
(* Trace validation for C16: each recorded event is a request issued to    *)
(* the real API together with the observed outcome class.  An event is     *)
(* accepted iff it is a request of FVContract's request space and the      *)
(* Respond action of FVContract yields the recorded outcome.               *)
(***************************************************************************)
EXTENDS FVContract, IOUtils

Trace == JsonDeserialize(IOEnv.TRACE_FILE).episodes
VARIABLE i

Fix(r) == IF r.kind = "periodic" THEN [r EXCEPT !.sides = ToSet(r.sides)] ELSE r

Verdict(k) ==
  LET e == Trace[k]
      r == Fix(e.req)
      known == r \in Requests /\ Meaningful(r)
  IN  [ep |-> e.id,
       failing |-> IF ~known THEN {"unknown_request"}
                   ELSE IF Expected(r) = e.outcome THEN {} ELSE {"C16_" \o r.kind},
       expected |-> IF known THEN Expected(r) ELSE "?"]

TInit == i = 0 /\ Init
TNext == /\ i < Len(Trace)
         /\ i' = i + 1
         /\ PrintT("@@ " \o ToJson(Verdict(i')))
         /\ UNCHANGED vars
TSpec == TInit /\ [][TNext]_<<i, vars>>
TraceAccepted == TLCGet("stats").diameter = Len(Trace) + 1
=============================================================================
