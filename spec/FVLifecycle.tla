---------------------------- MODULE FVLifecycle -----------------------------
(***************************************************************************)
(* The object / cache / dirty-bit layer of PyFVTool as a state machine     *)
(* (DESIGN section 1 (L), 5/C09, C14, C15).  One action per public call,   *)
(* written like the code:                                                  *)
(*   - a BoundaryConditions object has a content (a version id, bumped by  *)
(*     every edit; a deep copy keeps the content id) and a set of dirty    *)
(*     sides (the TrackedArray flags of its BoundaryFaces);                *)
(*   - a CellVariable refers to a BC object (possibly shared), has an      *)
(*     interior content id, a ghost layer remembered as the pair of        *)
(*     content ids it was computed from, a cached boundary term remembered *)
(*     as the BC content id it was built from (None: never built), the     *)
(*     value-array dirty flag and the BCsTerm_precalc switch;              *)
(*   - apply_BCs recomputes ghost layer (and cache when precalc), and      *)
(*     clears the dirty flags of the value array AND of the whole BC       *)
(*     object - also when that object is shared with other variables;      *)
(*   - solvePDE = entry check (re-apply when a flag is seen) ; use cache ; *)
(*     store ; apply_BCs, as one action, recording what it used.           *)
(* `last' is a history variable naming the action taken (used to replay    *)
(* behaviours into the real objects); it is hidden by the VIEW in pure     *)
(* invariant runs.                                                         *)
(***************************************************************************)
EXTENDS Integers, FiniteSets, Sequences, TLC, Json

CONSTANTS BCs,            \* pool of BC object identities
          Vars,           \* pool of CellVariable identities
          Sides,          \* sides that carry boundary coefficients (subset of the six names)
          MaxDepth,       \* bound on the length of behaviours (state constraint)
          UserSharing,    \* BOOLEAN: users may pass one BC object to several variables
          ManualReset,    \* BOOLEAN: x.modified = ... assignments are in the alphabet
          UserNoPrecalc,  \* BOOLEAN: CellVariable(..., BCsTerm_precalc=False) is in the alphabet
          Hows,           \* ways of editing a BC side: subset of {"coef","slice","utility","periodic","aonly","bonly","conly"}
          BuildKinds      \* builder names exercised by the Build action

None == -1

VARIABLES
  bcAlive,    \* [BCs -> BOOLEAN]
  bcC,        \* [BCs -> content id]
  bcDirty,    \* [BCs -> SUBSET Sides]   dirty BoundaryFaces
  bcPer,      \* [BCs -> SUBSET Sides]   sides whose `periodic' flag is set (part of the BC content; kept
              \*                         explicitly so that switching it ON and OFF are different transitions)
  viewHot,    \* [BCs -> SUBSET Sides]   sides whose coefficient array has been written through a slice VIEW that the
              \*                         program still holds (`w = face.c[sl]` kept across solves): the view carries a
              \*                         private TrackedArray flag that apply_BCs cannot reset, so a second write through
              \*                         it starts from a different implementation state than the first
  everShared, \* [BCs -> BOOLEAN]        the object was ever referred to by two variables
  alive,      \* [Vars -> BOOLEAN]
  bcOf,       \* [Vars -> BCs]
  intC,       \* [Vars -> content id of the interior values]
  ghostFrom,  \* [Vars -> <<interior content, BC content>>] the ghost layer was computed from
  cacheFrom,  \* [Vars -> BC content the cached term was built from, or None]
  valDirty,   \* [Vars -> BOOLEAN]
  precalc,    \* [Vars -> BOOLEAN]
  use,        \* what the last solve used: [var, cache, bc, exists]  (history, for C09)
  last        \* [name, args]  (history, for replay)

vars == <<bcAlive, bcC, bcDirty, bcPer, viewHot, everShared, alive, bcOf, intC, ghostFrom, cacheFrom,
          valDirty, precalc, use, last>>
view == <<bcAlive, bcC, bcDirty, bcPer, viewHot, everShared, alive, bcOf, intC, ghostFrom, cacheFrom,
          valDirty, precalc, use>>

AliveVars == {v \in Vars : alive[v]}
FreeVars  == {v \in Vars : ~alive[v]}
FreeBCs   == {b \in BCs : ~bcAlive[b]}
UsersOf(b) == {v \in AliveVars : bcOf[v] = b}

GhostFresh(v) == ghostFrom[v] = <<intC[v], bcC[bcOf[v]]>>
CacheFresh(v) == cacheFrom[v] = bcC[bcOf[v]]
HasCache(v)   == cacheFrom[v] # None
NoUse == [var |-> None, cache |-> None, bc |-> None, exists |-> TRUE]

\* fresh content ids: the smallest id not referred to anywhere (keeps the state space canonical:
\* only the equality pattern of content ids matters)
UsedBC  == {bcC[b] : b \in {x \in BCs : bcAlive[x]}}
             \cup {ghostFrom[v][2] : v \in AliveVars} \cup {cacheFrom[v] : v \in AliveVars}
UsedInt == {intC[v] : v \in AliveVars} \cup {ghostFrom[v][1] : v \in AliveVars}
FreshBC  == CHOOSE n \in 1..(Cardinality(UsedBC) + 1) : n \notin UsedBC
FreshInt == CHOOSE n \in 1..(Cardinality(UsedInt) + 1) : n \notin UsedInt

Init ==
  /\ bcAlive = [b \in BCs |-> FALSE]
  /\ bcC = [b \in BCs |-> 0]
  /\ bcDirty = [b \in BCs |-> {}]
  /\ bcPer = [b \in BCs |-> {}]
  /\ viewHot = [b \in BCs |-> {}]
  /\ everShared = [b \in BCs |-> FALSE]
  /\ alive = [v \in Vars |-> FALSE]
  /\ bcOf = [v \in Vars |-> CHOOSE b \in BCs : TRUE]
  /\ intC = [v \in Vars |-> 0]
  /\ ghostFrom = [v \in Vars |-> <<0, 0>>]
  /\ cacheFrom = [v \in Vars |-> None]
  /\ valDirty = [v \in Vars |-> FALSE]
  /\ precalc = [v \in Vars |-> TRUE]
  /\ use = NoUse
  /\ last = [name |-> "Init", args |-> <<>>]

-----------------------------------------------------------------------------
(* BoundaryConditions(mesh) *)
NewBC(b) ==
  /\ b \in FreeBCs
  /\ bcAlive' = [bcAlive EXCEPT ![b] = TRUE]
  /\ bcC' = [bcC EXCEPT ![b] = FreshBC]
  /\ bcDirty' = [bcDirty EXCEPT ![b] = {}]
  /\ everShared' = [everShared EXCEPT ![b] = FALSE]
  /\ use' = NoUse
  /\ bcPer' = [bcPer EXCEPT ![b] = {}]
  /\ viewHot' = [viewHot EXCEPT ![b] = {}]
  /\ last' = [name |-> "NewBC", args |-> <<b>>]
  /\ UNCHANGED <<alive, bcOf, intC, ghostFrom, cacheFrom, valDirty, precalc>>

\* the constructor: ghost layer from the BCs, cache when precalc, value flag reset; the
\* flags of the BC object are NOT reset
InitVar(v, b, pc, c0) ==
  /\ alive' = [alive EXCEPT ![v] = TRUE]
  /\ bcOf' = [bcOf EXCEPT ![v] = b]
  /\ intC' = [intC EXCEPT ![v] = c0]
  /\ valDirty' = [valDirty EXCEPT ![v] = FALSE]
  /\ precalc' = [precalc EXCEPT ![v] = pc]

(* CellVariable(mesh, value, BC [, BCsTerm_precalc=False]) on an existing BC object *)
NewVar(v, b, pc) ==
  /\ v \in FreeVars /\ bcAlive[b]
  /\ (UsersOf(b) # {} => UserSharing)
  /\ (~pc => UserNoPrecalc)
  /\ InitVar(v, b, pc, FreshInt)
  /\ ghostFrom' = [ghostFrom EXCEPT ![v] = <<FreshInt, bcC[b]>>]
  /\ cacheFrom' = [cacheFrom EXCEPT ![v] = IF pc THEN bcC[b] ELSE None]
  /\ everShared' = [everShared EXCEPT ![b] = everShared[b] \/ UsersOf(b) # {}]
  /\ use' = NoUse
  /\ last' = [name |-> "NewVar", args |-> <<v, b, pc>>]
  /\ UNCHANGED <<bcAlive, bcC, bcDirty, bcPer, viewHot>>

(* CellVariable(mesh, value): creates its own default BC object *)
NewVarDefault(v, b) ==
  /\ v \in FreeVars /\ b \in FreeBCs
  /\ InitVar(v, b, TRUE, FreshInt)
  /\ bcAlive' = [bcAlive EXCEPT ![b] = TRUE]
  /\ bcC' = [bcC EXCEPT ![b] = FreshBC]
  /\ bcDirty' = [bcDirty EXCEPT ![b] = {}]
  /\ everShared' = [everShared EXCEPT ![b] = FALSE]
  /\ ghostFrom' = [ghostFrom EXCEPT ![v] = <<FreshInt, FreshBC>>]
  /\ cacheFrom' = [cacheFrom EXCEPT ![v] = FreshBC]
  /\ use' = NoUse
  /\ bcPer' = [bcPer EXCEPT ![b] = {}]
  /\ viewHot' = [viewHot EXCEPT ![b] = {}]
  /\ last' = [name |-> "NewVarDefault", args |-> <<v, b>>]

(* face.a = x, face.a[sl] = x, defaultNoFlux / fixedValue / fixedGradient / newtonCooling,
   face.periodic = flag, ONE coefficient alone through its property ("aonly" / "bonly" / "conly"), or a write
   through a slice view of face.c that the program took earlier and still holds ("view"):
   content changes, the side becomes dirty *)
EditBC(b, s, how) ==
  /\ bcAlive[b] /\ s \in Sides
  /\ bcC' = [bcC EXCEPT ![b] = FreshBC]
  /\ bcDirty' = [bcDirty EXCEPT ![b] = @ \cup {s}]
  /\ bcPer' = [bcPer EXCEPT ![b] = IF how # "periodic" THEN @ ELSE IF s \in @ THEN @ \ {s} ELSE @ \cup {s}]
  /\ viewHot' = [viewHot EXCEPT ![b] = IF how = "view" THEN @ \cup {s} ELSE @]
  /\ use' = NoUse
  /\ last' = [name |-> "EditBC", args |-> <<b, s, how>>]
  /\ UNCHANGED <<bcAlive, everShared, alive, bcOf, intC, ghostFrom, cacheFrom, valDirty, precalc>>

(* BCs.modified = <anything> clears every flag (the setter ignores its argument);
   face.modified = val sets / clears one side; v.value.modified = val *)
ResetBCFlag(b) ==
  /\ ManualReset /\ bcAlive[b]
  /\ bcDirty' = [bcDirty EXCEPT ![b] = {}]
  /\ use' = NoUse
  /\ last' = [name |-> "ResetBCFlag", args |-> <<b>>]
  /\ UNCHANGED <<bcAlive, bcC, bcPer, viewHot, everShared, alive, bcOf, intC, ghostFrom, cacheFrom, valDirty, precalc>>
SetFaceFlag(b, s, val) ==
  /\ ManualReset /\ bcAlive[b] /\ s \in Sides
  /\ bcDirty' = [bcDirty EXCEPT ![b] = IF val THEN @ \cup {s} ELSE @ \ {s}]
  /\ use' = NoUse
  /\ last' = [name |-> "SetFaceFlag", args |-> <<b, s, val>>]
  /\ UNCHANGED <<bcAlive, bcC, bcPer, viewHot, everShared, alive, bcOf, intC, ghostFrom, cacheFrom, valDirty, precalc>>
SetValueFlag(v, val) ==
  /\ ManualReset /\ alive[v]
  /\ valDirty' = [valDirty EXCEPT ![v] = val]
  /\ use' = NoUse
  /\ last' = [name |-> "SetValueFlag", args |-> <<v, val>>]
  /\ UNCHANGED <<bcAlive, bcC, bcDirty, bcPer, viewHot, everShared, alive, bcOf, intC, ghostFrom, cacheFrom, precalc>>

(* v.value = x  /  v.value[sl] = x *)
AssignValue(v, how) ==
  /\ alive[v]
  /\ intC' = [intC EXCEPT ![v] = FreshInt]
  /\ valDirty' = [valDirty EXCEPT ![v] = TRUE]
  /\ use' = NoUse
  /\ last' = [name |-> "AssignValue", args |-> <<v, how>>]
  /\ UNCHANGED <<bcAlive, bcC, bcDirty, bcPer, viewHot, everShared, alive, bcOf, ghostFrom, cacheFrom, precalc>>

(* v.update_value(w): the whole array of w (ghost layer included) is copied into v *)
UpdateValue(v, w) ==
  /\ alive[v] /\ alive[w] /\ v # w
  /\ intC' = [intC EXCEPT ![v] = intC[w]]
  /\ ghostFrom' = [ghostFrom EXCEPT ![v] = ghostFrom[w]]
  /\ valDirty' = [valDirty EXCEPT ![v] = TRUE]
  /\ use' = NoUse
  /\ last' = [name |-> "UpdateValue", args |-> <<v, w>>]
  /\ UNCHANGED <<bcAlive, bcC, bcDirty, bcPer, viewHot, everShared, alive, bcOf, cacheFrom, precalc>>

(* w = v.copy(): full array copied as it is, BC object deep-copied (same content, same flags) *)
Copy(v, w, b) ==
  /\ alive[v] /\ w \in FreeVars /\ b \in FreeBCs
  /\ InitVar(w, b, TRUE, intC[v])
  /\ bcAlive' = [bcAlive EXCEPT ![b] = TRUE]
  /\ bcC' = [bcC EXCEPT ![b] = bcC[bcOf[v]]]
  /\ bcDirty' = [bcDirty EXCEPT ![b] = bcDirty[bcOf[v]]]
  /\ everShared' = [everShared EXCEPT ![b] = FALSE]
  /\ ghostFrom' = [ghostFrom EXCEPT ![w] = ghostFrom[v]]
  /\ cacheFrom' = [cacheFrom EXCEPT ![w] = bcC[bcOf[v]]]
  /\ use' = NoUse
  /\ bcPer' = [bcPer EXCEPT ![b] = bcPer[bcOf[v]]]
  /\ viewHot' = [viewHot EXCEPT ![b] = {}]     \* a deep copy: nobody holds views of the new arrays
  /\ last' = [name |-> "Copy", args |-> <<v, w, b>>]

(* r = op(v [, w | scalar]) / funceval: new interior values, deep copy of v's BC object,
   ghost layer computed from it *)
Arith(v, r, b, op) ==
  /\ alive[v] /\ r \in FreeVars /\ b \in FreeBCs
  /\ InitVar(r, b, TRUE, FreshInt)
  /\ bcAlive' = [bcAlive EXCEPT ![b] = TRUE]
  /\ bcC' = [bcC EXCEPT ![b] = bcC[bcOf[v]]]
  /\ bcDirty' = [bcDirty EXCEPT ![b] = bcDirty[bcOf[v]]]
  /\ everShared' = [everShared EXCEPT ![b] = FALSE]
  /\ ghostFrom' = [ghostFrom EXCEPT ![r] = <<FreshInt, bcC[bcOf[v]]>>]
  /\ cacheFrom' = [cacheFrom EXCEPT ![r] = bcC[bcOf[v]]]
  /\ use' = NoUse
  /\ bcPer' = [bcPer EXCEPT ![b] = bcPer[bcOf[v]]]
  /\ viewHot' = [viewHot EXCEPT ![b] = {}]     \* a deep copy: nobody holds views of the new arrays
  /\ last' = [name |-> "Arith", args |-> <<v, r, b, op>>]

\* effect of apply_BCs on variable v, given the interior content ic it has at that moment
Applied(v, ic) ==
  /\ ghostFrom' = [ghostFrom EXCEPT ![v] = <<ic, bcC[bcOf[v]]>>]
  /\ cacheFrom' = [cacheFrom EXCEPT ![v] = IF precalc[v] THEN bcC[bcOf[v]] ELSE @]
  /\ bcDirty' = [bcDirty EXCEPT ![bcOf[v]] = {}]
  /\ valDirty' = [valDirty EXCEPT ![v] = FALSE]

(* v.apply_BCs() *)
ApplyBCs(v) ==
  /\ alive[v]
  /\ Applied(v, intC[v])
  /\ use' = NoUse
  /\ last' = [name |-> "ApplyBCs", args |-> <<v>>]
  /\ UNCHANGED <<bcAlive, bcC, bcPer, viewHot, everShared, alive, bcOf, intC, precalc>>

NeedsApply(v) == bcDirty[bcOf[v]] # {} \/ valDirty[v]

(* solvePDE(v, terms): entry check ; use cache ; store ; apply_BCs.
   `entry' tells whether the entry check re-applies the BCs: the code decides it from the
   flags (NeedsApply); trace validation passes what the code was observed to do.          *)
SolvePDEWith(v, entry) ==
  /\ alive[v]
  /\ LET usedCache == IF entry /\ precalc[v] THEN bcC[bcOf[v]] ELSE cacheFrom[v]
     IN  /\ use' = [var |-> v, cache |-> usedCache, bc |-> bcC[bcOf[v]], exists |-> usedCache # None]
         /\ IF usedCache = None
            THEN \* AttributeError: nothing is stored; the entry check may have run
                 /\ IF entry THEN Applied(v, intC[v])
                    ELSE UNCHANGED <<ghostFrom, cacheFrom, bcDirty, valDirty>>
                 /\ UNCHANGED intC
            ELSE /\ intC' = [intC EXCEPT ![v] = FreshInt]
                 /\ Applied(v, FreshInt)
  /\ last' = [name |-> "SolvePDE", args |-> <<v>>]
  /\ UNCHANGED <<bcAlive, bcC, bcPer, viewHot, everShared, alive, bcOf, precalc>>
SolvePDE(v) == SolvePDEWith(v, NeedsApply(v))

(* solvePDE(v, terms) raises while it assembles the system (an unknown term object, a vector of the wrong size after
   valid terms were already added): nothing is stored; only the entry check may have run.  What the failed call
   leaves behind must not show in any later solve. *)
SolveFails(v) ==
  /\ alive[v] /\ HasCache(v)
  /\ IF NeedsApply(v) THEN Applied(v, intC[v])
     ELSE UNCHANGED <<ghostFrom, cacheFrom, bcDirty, valDirty>>
  /\ use' = NoUse
  /\ last' = [name |-> "SolveFails", args |-> <<v>>]
  /\ UNCHANGED <<bcAlive, bcC, bcPer, viewHot, everShared, alive, bcOf, intC, precalc>>

(* r = solveExplicitPDE(v, dt, RHS): entry check on v ; new variable r SHARING v's BC object *)
SolveExplicitWith(v, r, entry) ==
  /\ alive[v] /\ r \in FreeVars
  /\ alive' = [alive EXCEPT ![r] = TRUE]
  /\ bcOf' = [bcOf EXCEPT ![r] = bcOf[v]]
  /\ intC' = [intC EXCEPT ![r] = FreshInt]
  /\ precalc' = [precalc EXCEPT ![r] = TRUE]
  /\ ghostFrom' = [ghostFrom EXCEPT ![r] = <<FreshInt, bcC[bcOf[v]]>>,
                                    ![v] = IF entry THEN <<intC[v], bcC[bcOf[v]]>> ELSE @]
  /\ cacheFrom' = [cacheFrom EXCEPT ![r] = bcC[bcOf[v]],
                                    ![v] = IF entry /\ precalc[v] THEN bcC[bcOf[v]] ELSE @]
  /\ bcDirty' = [bcDirty EXCEPT ![bcOf[v]] = {}]
  /\ valDirty' = [valDirty EXCEPT ![r] = FALSE, ![v] = IF entry THEN FALSE ELSE @]
  /\ everShared' = [everShared EXCEPT ![bcOf[v]] = TRUE]
  /\ use' = NoUse
  /\ last' = [name |-> "SolveExplicit", args |-> <<v, r>>]
  /\ UNCHANGED <<bcAlive, bcC, bcPer, viewHot>>
SolveExplicit(v, r) == SolveExplicitWith(v, r, NeedsApply(v))

(* r = solveMatrixPDE(mesh, M, RHS): a new variable with its own default BC object *)
SolveMatrix(r, b) ==
  /\ r \in FreeVars /\ b \in FreeBCs
  /\ InitVar(r, b, TRUE, FreshInt)
  /\ bcAlive' = [bcAlive EXCEPT ![b] = TRUE]
  /\ bcC' = [bcC EXCEPT ![b] = FreshBC]
  /\ bcDirty' = [bcDirty EXCEPT ![b] = {}]
  /\ everShared' = [everShared EXCEPT ![b] = FALSE]
  \* the full array (ghost layer included) is taken as the solver returned it
  /\ ghostFrom' = [ghostFrom EXCEPT ![r] = <<FreshInt, None>>]
  /\ cacheFrom' = [cacheFrom EXCEPT ![r] = FreshBC]
  /\ use' = NoUse
  /\ bcPer' = [bcPer EXCEPT ![b] = {}]
  /\ viewHot' = [viewHot EXCEPT ![b] = {}]
  /\ last' = [name |-> "SolveMatrix", args |-> <<r, b>>]

(* any term / mean / gradient / divergence / boundary-term / location builder: pure *)
Build(v, kind) ==
  /\ alive[v]
  /\ use' = NoUse
  /\ last' = [name |-> "Build", args |-> <<v, kind>>]
  /\ UNCHANGED <<bcAlive, bcC, bcDirty, bcPer, viewHot, everShared, alive, bcOf, intC, ghostFrom, cacheFrom,
                 valDirty, precalc>>

(* the variable goes out of scope (frees a slot of the bounded pool) *)
Drop(v) ==
  /\ alive[v]
  /\ alive' = [alive EXCEPT ![v] = FALSE]
  /\ LET b == bcOf[v] IN
       bcAlive' = [bcAlive EXCEPT ![b] = UsersOf(b) # {v}]
  /\ use' = NoUse
  /\ last' = [name |-> "Drop", args |-> <<v>>]
  /\ UNCHANGED <<bcC, bcDirty, bcPer, viewHot, everShared, bcOf, intC, ghostFrom, cacheFrom, valDirty, precalc>>

(* a BoundaryConditions object that no variable refers to goes out of scope *)
DropBC(b) ==
  /\ bcAlive[b] /\ UsersOf(b) = {}
  /\ bcAlive' = [bcAlive EXCEPT ![b] = FALSE]
  /\ use' = NoUse
  /\ last' = [name |-> "DropBC", args |-> <<b>>]
  /\ UNCHANGED <<bcC, bcDirty, bcPer, viewHot, everShared, alive, bcOf, intC, ghostFrom, cacheFrom, valDirty, precalc>>

Ops == {"add", "mul_scalar", "neg", "funceval"}

Next ==
  \/ \E b \in BCs : NewBC(b)
  \/ \E v \in Vars, b \in BCs, pc \in BOOLEAN : NewVar(v, b, pc)
  \/ \E v \in Vars, b \in BCs : NewVarDefault(v, b)
  \/ \E b \in BCs, s \in Sides, how \in Hows : EditBC(b, s, how)
  \/ \E b \in BCs : ResetBCFlag(b)
  \/ \E b \in BCs, s \in Sides, val \in BOOLEAN : SetFaceFlag(b, s, val)
  \/ \E v \in Vars, val \in BOOLEAN : SetValueFlag(v, val)
  \/ \E v \in Vars, how \in {"whole", "slice"} : AssignValue(v, how)
  \/ \E v, w \in Vars : UpdateValue(v, w)
  \/ \E v, w \in Vars, b \in BCs : Copy(v, w, b)
  \/ \E v, r \in Vars, b \in BCs, op \in Ops : Arith(v, r, b, op)
  \/ \E v \in Vars : ApplyBCs(v)
  \/ \E v \in Vars : SolvePDE(v)
  \/ \E v \in Vars : SolveFails(v)
  \/ \E v, r \in Vars : SolveExplicit(v, r)
  \/ \E r \in Vars, b \in BCs : SolveMatrix(r, b)
  \/ \E v \in Vars, k \in BuildKinds : Build(v, k)

Spec == Init /\ [][Next]_vars

\* projection of the state that the replay harness compares with the real objects after each step
Projection ==
  [level |-> TLCGet("level"),
   name |-> last.name, args |-> last.args,
   vars |-> [v \in AliveVars |->
               [bc |-> bcOf[v], valDirty |-> valDirty[v], hasCache |-> HasCache(v),
                cacheFresh |-> CacheFresh(v), ghostFresh |-> GhostFresh(v), precalc |-> precalc[v]]],
   bcs |-> [b \in {x \in BCs : bcAlive[x]} |-> [dirty |-> bcDirty[b], per |-> bcPer[b], shared |-> everShared[b]]],
   use |-> use]
\* (simulation mode, one worker) print every state of every behaviour
Emit == PrintT("@@ " \o ToJson(Projection))
\* (exhaustive mode, one worker, as ACTION_CONSTRAINT) print every transition of the state graph:
\* source and target state keys and the projection of the target, so that the harness can
\* replay every (state, action) pair of the bounded model along a shortest path
StateKey == ToJson(<<bcAlive, bcC, bcDirty, bcPer, viewHot, everShared, alive, bcOf, intC, ghostFrom, cacheFrom,
                     valDirty, precalc, use>>)
EmitEdge == PrintT("@@ " \o ToJson([src |-> StateKey, dst |-> StateKey', step |-> Projection']))
\* (the SYMMETRY set lives in FVLifecycleMC: TLC evaluates constant definitions eagerly, and the trace
\*  specification instantiates this module with pools for which Permutations(...) would be astronomically large)
Bounded == TLCGet("level") <= MaxDepth

-----------------------------------------------------------------------------
(* properties *)
TypeOK ==
  /\ \A b \in BCs : bcDirty[b] \subseteq Sides /\ bcPer[b] \subseteq Sides /\ viewHot[b] \subseteq Sides
  /\ \A v \in AliveVars : bcAlive[bcOf[v]]

\* C09: a solve never reads a cache that was never built
C09_CacheExists == use.exists
\* C09: whatever a solve uses is fresh (the cached boundary term corresponds to the BC content)
C09_FreshAtUse == use.var # None => (use.exists => use.cache = use.bc)
\* ... restricted to BC objects that were never shared between variables
C09_FreshAtUseUnshared ==
  (use.var # None /\ use.exists /\ ~everShared[bcOf[use.var]]) => use.cache = use.bc
\* after a successful solve / apply_BCs the variable's ghost layer and cache are fresh
C09_FreshAfter ==
  (last.name \in {"SolvePDE", "ApplyBCs"} /\ (last.name = "SolvePDE" => use.exists)) =>
     LET v == last.args[1] IN GhostFresh(v) /\ (precalc[v] => CacheFresh(v))
\* the variable returned by the explicit solver is usable by the implicit solver
C09_ExplicitUsable ==
  last.name = "SolveExplicit" => LET r == last.args[2] IN HasCache(r) /\ CacheFresh(r) /\ GhostFresh(r)
\* C09 / C14: copy() and operators yield objects that share no BC object with anything else
C14_Independent ==
  last.name \in {"Copy", "Arith"} =>
     LET r == last.args[2] IN UsersOf(bcOf[r]) = {r}
\* with its own BC object a variable's flags tell the truth: clean flags => nothing is stale
C09_CleanMeansFresh ==
  \A v \in AliveVars :
     (~everShared[bcOf[v]] /\ ~NeedsApply(v) /\ precalc[v] /\ HasCache(v) /\ ghostFrom[v][2] # None)
        => CacheFresh(v)
=============================================================================
