SPECIFICATION Spec
CONSTANTS
  BCs = {b1, b2, b3, b4, b5}
  Vars = {v1, v2, v3, v4}
  Sides = {"s1", "s2"}
  MaxDepth = 40
  UserSharing = TRUE
  ManualReset = FALSE
  UserNoPrecalc = FALSE
  Hows = {"coef", "slice", "utility", "periodic", "view", "aonly", "bonly", "conly"}
  BuildKinds = {"diffusionTerm", "transientTerm", "gradientTerm", "boundaryConditionsTerm"}
INVARIANT Emit
INVARIANT TypeOK
INVARIANT C09_CacheExists
INVARIANT C09_FreshAtUseUnshared
INVARIANT C09_FreshAfter
INVARIANT C09_ExplicitUsable
INVARIANT C14_Independent
INVARIANT C09_CleanMeansFresh
