SPECIFICATION Spec
CONSTANTS
  BCs = {b1}
  Vars = {v1}
  Sides = {"s1", "s2"}
  MaxDepth = 6
  UserSharing = FALSE
  ManualReset = FALSE
  UserNoPrecalc = FALSE
  Hows = {"coef", "slice", "utility", "periodic", "view", "aonly", "bonly", "conly"}
  BuildKinds = {}
CONSTRAINT Bounded
ACTION_CONSTRAINT EmitEdge
VIEW view
INVARIANT TypeOK
INVARIANT C09_FreshAtUseUnshared
INVARIANT C09_FreshAfter
