---------------------------- MODULE FVOperators -----------------------------
(***************************************************************************)
(* Exact reference semantics of the discretisation (DESIGN appendix A):    *)
(* one structured orthogonal scheme, instantiated for the nine grid        *)
(* classes through the metric tables AreaF / Weight / GScale of            *)
(* FVGeometry.                                                             *)
(*                                                                         *)
(* Representations                                                         *)
(*   cell field   : function  AllCells(g) -> Rat   (ghost cells included)  *)
(*   face field   : function  FaceIds(g)  -> Rat,  a face id is <<a, f>>   *)
(*                  with f a cell tuple whose a-th entry is the face       *)
(*                  number 0..N_a and whose other entries are interior     *)
(*   matrix       : function from pairs <<row cell, column cell>> to the   *)
(*                  non-zero entries                                       *)
(*   vector       : cell field                                             *)
(***************************************************************************)
EXTENDS FVGeometry, FVLimiters

Axes(g) == 1..Dim(g.cls)

FaceCells(g, a) ==      \* tuples: face number along a, interior indices elsewhere
  CASE Dim(g.cls) = 1 -> {<<j>> : j \in 0..NCells(g, 1)}
    [] Dim(g.cls) = 2 ->
         IF a = 1 THEN {<<j, k>> : j \in 0..NCells(g, 1), k \in 1..NCells(g, 2)}
         ELSE {<<j, k>> : j \in 1..NCells(g, 1), k \in 0..NCells(g, 2)}
    [] OTHER ->
         {<<i, j, k>> : i \in (IF a = 1 THEN 0 ELSE 1)..NCells(g, 1),
                        j \in (IF a = 2 THEN 0 ELSE 1)..NCells(g, 2),
                        k \in (IF a = 3 THEN 0 ELSE 1)..NCells(g, 3)}
FaceIds(g) == UNION {{<<a, f>> : f \in FaceCells(g, a)} : a \in Axes(g)}

\* the two cells adjacent to face <<a, f>> (lower, upper along axis a)
LoCell(a, f) == f
HiCell(a, f) == Shift(f, a, 1)
\* an interior cell representing the line of cells through face <<a, f>> (for the metric tables)
LineCell(g, a, f) == [f EXCEPT ![a] = 1]
IsBoundaryFace(g, a, f) == f[a] = 0 \/ f[a] = NCells(g, a)
\* faces of interior cell P along axis a
EastFace(P, a) == <<a, P>>
WestFace(P, a) == <<a, Shift(P, a, -1)>>

-----------------------------------------------------------------------------
(* sparse matrices *)
MEmpty == [p \in {} |-> RZero]
MGet(M, r, c) == IF <<r, c>> \in DOMAIN M THEN M[<<r, c>>] ELSE RZero
Prune(M) == LET keep == {p \in DOMAIN M : ~RIsZero(M[p])} IN [p \in keep |-> M[p]]
MAdd(M1, M2) == Prune([p \in (DOMAIN M1) \cup (DOMAIN M2) |->
                          RAdd(IF p \in DOMAIN M1 THEN M1[p] ELSE RZero,
                               IF p \in DOMAIN M2 THEN M2[p] ELSE RZero)])
MScale(q, M) == Prune([p \in DOMAIN M |-> RMul(q, M[p])])
MNeg(M) == [p \in DOMAIN M |-> RNeg(M[p])]
MSub(M1, M2) == MAdd(M1, MNeg(M2))
MRows(M) == {p[1] : p \in DOMAIN M}
MRow(M, r) == {p \in DOMAIN M : p[1] = r}
MCol(M, c) == {p \in DOMAIN M : p[2] = c}
\* (M x)[r]
MApplyRow(M, x, r) == RSumSet(MRow(M, r), LAMBDA p : RMul(M[p], x[p[2]]))
MApply(g, M, x) == [r \in AllCells(g) |-> MApplyRow(M, x, r)]
VZero(g) == [c \in AllCells(g) |-> RZero]
VAdd(v, w) == [c \in DOMAIN v |-> RAdd(v[c], w[c])]
VSub(v, w) == [c \in DOMAIN v |-> RSub(v[c], w[c])]
VScale(q, v) == [c \in DOMAIN v |-> RMul(q, v[c])]
\* unit basis vector
Unit(g, c0) == [c \in AllCells(g) |-> IF c = c0 THEN ROne ELSE RZero]

-----------------------------------------------------------------------------
(* gradient, divergence *)
Grad(g, phi) ==
  [id \in FaceIds(g) |->
     LET a == id[1]  f == id[2]  lc == LineCell(g, a, f)
     IN  RDiv(RSub(phi[HiCell(a, f)], phi[LoCell(a, f)]),
              RMul(GScale(g, a, lc), Delta(g, a, f[a])))]

DivAt(g, F, P) ==
  RSumSet(Axes(g), LAMBDA a :
     RDiv(RSub(RMul(AreaF(g, a, P, P[a]), F[EastFace(P, a)]),
               RMul(AreaF(g, a, P, P[a] - 1), F[WestFace(P, a)])),
          Weight(g, a, P)))
Div(g, F) == [c \in AllCells(g) |-> IF c \in Interior(g) THEN DivAt(g, F, c) ELSE RZero]

FMul(F1, F2) == [id \in DOMAIN F1 |-> RMul(F1[id], F2[id])]
FScale(q, F) == [id \in DOMAIN F |-> RMul(q, F[id])]

-----------------------------------------------------------------------------
(* cell-to-face means *)
LinearMean(g, phi) ==
  [id \in FaceIds(g) |->
     LET a == id[1]  f == id[2]
         dl == Size(g, a, f[a])  dr == Size(g, a, f[a] + 1)
     IN  RDiv(RAdd(RMul(dr, phi[LoCell(a, f)]), RMul(dl, phi[HiCell(a, f)])), RAdd(dl, dr))]
ArithmeticMean(g, phi) ==
  [id \in FaceIds(g) |->
     LET a == id[1]  f == id[2]
         dl == Size(g, a, f[a])  dr == Size(g, a, f[a] + 1)
     IN  RDiv(RAdd(RMul(dl, phi[LoCell(a, f)]), RMul(dr, phi[HiCell(a, f)])), RAdd(dl, dr))]
HarmonicMean(g, phi) ==
  [id \in FaceIds(g) |->
     LET a == id[1]  f == id[2]
         dl == Size(g, a, f[a])  dr == Size(g, a, f[a] + 1)
         pl == phi[LoCell(a, f)]  pr == phi[HiCell(a, f)]
     IN  IF RIsZero(pl) \/ RIsZero(pr) THEN RZero
         ELSE RDiv(RAdd(dl, dr), RAdd(RDiv(dl, pl), RDiv(dr, pr)))]
\* donor-cell weights <<wLo, wHi>> of the upwind mean at face <<a, f>> for upwind velocity ut
UpwindWeights(g, a, f, ut) ==
  IF RPos(ut) THEN (IF f[a] = 0 THEN <<RHalf, RHalf>> ELSE <<ROne, RZero>>)
  ELSE IF RNegv(ut) THEN (IF f[a] = NCells(g, a) THEN <<RHalf, RHalf>> ELSE <<RZero, ROne>>)
  ELSE <<RHalf, RHalf>>
UpwindMean(g, phi, ut) ==
  [id \in FaceIds(g) |->
     LET a == id[1]  f == id[2]  w == UpwindWeights(g, a, f, ut[id])
     IN  RAdd(RMul(w[1], phi[LoCell(a, f)]), RMul(w[2], phi[HiCell(a, f)]))]

-----------------------------------------------------------------------------
(* implicit matrix terms: every one is  Div(coef (.) FaceOperator(phi))  written out as rows *)
\* generic: rows of  phi |-> Div(g, F(phi))  where  F(phi)[id] = wl[id]*phi[lo] + wh[id]*phi[hi]
FluxRows(g, wl, wh) ==
  LET entry(P, Q) ==
        RSumSet(Axes(g), LAMBDA a :
          LET W  == Weight(g, a, P)
              Ae == AreaF(g, a, P, P[a])
              Aw == AreaF(g, a, P, P[a] - 1)
              e  == EastFace(P, a)
              w  == WestFace(P, a)
              E  == Shift(P, a, 1)
              Wc == Shift(P, a, -1)
              east == IF Q = P THEN RMul(Ae, wl[e]) ELSE IF Q = E THEN RMul(Ae, wh[e]) ELSE RZero
              west == IF Q = Wc THEN RMul(Aw, wl[w]) ELSE IF Q = P THEN RMul(Aw, wh[w]) ELSE RZero
          IN  RDiv(RSub(east, west), W))
      dom == UNION {{<<P, Q>> : Q \in {P} \cup {Shift(P, a, d) : a \in Axes(g), d \in {-1, 1}}} :
                      P \in Interior(g)}
  IN  Prune([p \in dom |-> entry(p[1], p[2])])

DiffusionRows(g, D) ==
  LET k == [id \in FaceIds(g) |->
              RDiv(D[id], RMul(GScale(g, id[1], LineCell(g, id[1], id[2])), Delta(g, id[1], id[2][id[1]])))]
  IN  FluxRows(g, [id \in FaceIds(g) |-> RNeg(k[id])], k)

CentralRows(g, u) ==
  LET dl(id) == Size(g, id[1], id[2][id[1]])
      dr(id) == Size(g, id[1], id[2][id[1]] + 1)
  IN  FluxRows(g, [id \in FaceIds(g) |-> RDiv(RMul(u[id], dr(id)), RAdd(dl(id), dr(id)))],
                  [id \in FaceIds(g) |-> RDiv(RMul(u[id], dl(id)), RAdd(dl(id), dr(id)))])

UpwindRows(g, u, ut) ==
  FluxRows(g, [id \in FaceIds(g) |-> RMul(u[id], UpwindWeights(g, id[1], id[2], ut[id])[1])],
              [id \in FaceIds(g) |-> RMul(u[id], UpwindWeights(g, id[1], id[2], ut[id])[2])])

-----------------------------------------------------------------------------
(* TVD correction of the upwind scheme (a vector; DESIGN appendix A).  FL(r) is the limiter:
   a named one (FVLimiters!Psi), or the constants "zero" / "unit".                         *)
Limit(fl, r) == IF fl = "zero" THEN RZero ELSE IF fl = "unit" THEN ROne ELSE Psi(fl, r)
\* difference quotient across face j of the line of axis a through cell line lc
TvdPsi(g, a, phi, fl, f, plus) ==
  LET j == f[a]
      N == NCells(g, a)
      cellAt(i) == [f EXCEPT ![a] = i]
      dphi(k) == RSub(phi[cellAt(k + 1)], phi[cellAt(k)])         \* across face k
      grad(k) == RDiv(dphi(k), Delta(g, a, k))
  IN  IF plus
      THEN IF j = 0 \/ RIsZero(dphi(j)) THEN RZero
           ELSE RMul(RMul(RHalf, Limit(fl, RDiv(grad(j - 1), grad(j)))), dphi(j))
      ELSE IF j = N \/ RIsZero(dphi(j)) THEN RZero
           ELSE RMul(RMul(RHalf, Limit(fl, RDiv(grad(j + 1), grad(j)))), RNeg(dphi(j)))
\* corrected flux contribution at face id
TvdFlux(g, u, ut, phi, fl, id) ==
  LET a == id[1]  f == id[2]
      up == IF RGe(ut[id], RZero) THEN u[id] ELSE RZero      \* part where the upwind velocity is >= 0
      um == IF RLe(ut[id], RZero) THEN u[id] ELSE RZero      \* part where it is <= 0
  IN  RAdd(RMul(up, TvdPsi(g, a, phi, fl, f, TRUE)), RMul(um, TvdPsi(g, a, phi, fl, f, FALSE)))
TvdRHS(g, u, ut, phi, fl) ==
  LET F == [id \in FaceIds(g) |-> TvdFlux(g, u, ut, phi, fl, id)]
  IN  [c \in AllCells(g) |-> IF c \in Interior(g) THEN RNeg(DivAt(g, F, c)) ELSE RZero]

\* sources and the transient term act on interior rows only
LinearSourceRows(g, beta) ==
  Prune([p \in {<<c, c>> : c \in Interior(g)} |-> beta[p[1]]])
ConstantSourceVec(g, gamma) ==
  [c \in AllCells(g) |-> IF c \in Interior(g) THEN gamma[c] ELSE RZero]
TransientRows(g, alpha, dt) == LinearSourceRows(g, [c \in AllCells(g) |-> RDiv(alpha[c], dt)])
TransientVec(g, alpha, dt, old) ==
  ConstantSourceVec(g, [c \in AllCells(g) |-> RDiv(RMul(alpha[c], old[c]), dt)])
=============================================================================
