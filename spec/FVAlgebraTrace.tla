--------------------------- MODULE FVAlgebraTrace ----------------------------
(* Trace validation for the operator table of FVAlgebra (C14, value level). *)
EXTENDS FVAlgebra

(* trace validation: recorded results of the real operators *)
Trace == JsonDeserialize(IOEnv.TRACE_FILE).episodes
VARIABLE i
\* an observation: a rational (all entries equal to it), "mixed" (entries differ), or "error:<Type>"
Verdict(k) ==
  LET e == Trace[k]
      bad == {j \in 1..Len(e.results) :
                LET r == e.results[j]
                    exp == Expected(r.req)
                IN  IF exp = NaR THEN FALSE          \* numpy yields inf / nan with a warning: not judged
                    ELSE ~(r.obs.kind = "value" /\ r.obs.q = exp)}
  IN  [ep |-> e.id, failing |-> IF bad = {} THEN {} ELSE {"C14_Elementwise"},
       first |-> SubSeq(SetToSortSeq(bad, <), 1, IF Cardinality(bad) < 5 THEN Cardinality(bad) ELSE 5),
       count |-> Cardinality(bad)]
TInit == i = 0 /\ Init
TNext == /\ i < Len(Trace) /\ i' = i + 1
         /\ PrintT("@@ " \o ToJson(Verdict(i')))
         /\ UNCHANGED <<req, resp, val>>
TSpec == TInit /\ [][TNext]_<<i, req, resp, val>>
=============================================================================
