---------------------------- MODULE FVTraceMesh -----------------------------
(***************************************************************************)
(* Trace validation for mesh construction (C10).  The trace file holds     *)
(* episodes  [cfg |-> configuration, obs |-> what the real constructor     *)
(* produced, lifted to exact rationals].  One state per episode; for each  *)
(* one a total verdict record is printed:                                  *)
(*     [ep, failing |-> names of the C10 clauses that are FALSE on obs]    *)
(***************************************************************************)
EXTENDS FVProperties, Json, TLC, IOUtils

Trace == JsonDeserialize(IOEnv.TRACE_FILE).episodes

VARIABLE i
Mesh(c) == [cls |-> c.cls, faces |-> c.faces, aunit |-> c.aunit]

Verdict(k) ==
  LET e == Trace[k]
      g == Mesh(e.cfg)
      f == IF "error" \in DOMAIN e.obs THEN {"C10_Constructs"} ELSE C10_Failing(g, e.obs)
      \* diagnosis used for finding signatures: along which axes does obs/ref vary?
      volOk == /\ "error" \notin DOMAIN e.obs
               /\ Len(e.obs.volume) = Cardinality(Interior(g))
               /\ \A kk \in 1..Len(e.obs.volume) : ~IsNaR(e.obs.volume[kk])
      ratio(c) == RDiv(e.obs.volume[IntIdx(g, c)], VolGeom(g, c))
      varies == IF ~volOk THEN {0}
                ELSE {a \in 1..Dim(g.cls) :
                        \E c \in Interior(g) : ratio(c) # ratio([c EXCEPT ![a] = 1])}
      thetaFull == IF g.cls = "SphericalGrid3D"
                   THEN Lo(g, 2) = RZero /\ Hi(g, 2) = ROne ELSE TRUE
  IN  [ep |-> e.id, failing |-> f,
       detail |-> IF f \cap {"C10_Volume", "C10_VolSum"} = {} THEN [volVaries |-> {}, thetaFull |-> thetaFull]
                  ELSE [volVaries |-> varies, thetaFull |-> thetaFull]]

Init == i = 0
Next == /\ i < Len(Trace)
        /\ i' = i + 1
        /\ PrintT("@@ " \o ToJson(Verdict(i')))
Spec == Init /\ [][Next]_i
\* every episode was consumed (one state per episode plus the initial one)
TraceAccepted == TLCGet("stats").diameter = Len(Trace) + 1
=============================================================================
