SPECIFICATION Spec
CONSTANTS
  BCs = {b1, b2, b3}
  Vars = {v1, v2, v3}
  Sides = {"s1"}
  MaxDepth = 8
  UserSharing = TRUE
  ManualReset = FALSE
  UserNoPrecalc = FALSE
  Hows = {"coef", "periodic"}
  BuildKinds = {"transientTerm"}
CONSTRAINT Bounded
SYMMETRY Symm
VIEW view
INVARIANT TypeOK
INVARIANT C09_CacheExists
INVARIANT C09_FreshAtUseUnshared
INVARIANT C09_FreshAfter
INVARIANT C09_ExplicitUsable
INVARIANT C14_Independent
INVARIANT C09_CleanMeansFresh
