SPECIFICATION Spec
POSTCONDITION TraceAccepted
