---------------------------- MODULE FVDesignMesh ----------------------------
(***************************************************************************)
(* Design-level model of mesh construction (C10) and generator of the      *)
(* bounded mesh configuration space.  A behaviour is  Init -> Pick -> Eval *)
(* Pick chooses a configuration (class, constructor form, faces); Eval     *)
(* builds the reference mesh.  The C10 predicates are INVARIANTs of the    *)
(* evaluated states; every picked configuration is printed ("@@ json") so  *)
(* that the harness can replay it into the real constructors.              *)
(***************************************************************************)
EXTENDS FVProperties, Json, TLC

CONSTANTS LinVals,      \* integers usable as Cartesian / radial / z face positions
          MaxN,         \* max cells per axis
          MaxN3,        \* max cells per axis for 3D classes
          ClassSel,     \* subset of Classes to explore
          Emit          \* BOOLEAN: print configurations

VARIABLES phase, cfg, ref
vars == <<phase, cfg, ref>>

RadVals   == {<<0, 1>>, <<1, 2>>, <<1, 1>>, <<2, 1>>, <<3, 1>>}          \* angles in radians
PiTheta   == {<<0, 1>>, <<1, 3>>, <<1, 2>>, <<2, 3>>, <<1, 1>>}          \* polar angle / pi
PiPhi     == {<<0, 1>>, <<1, 2>>, <<1, 1>>, <<3, 2>>, <<2, 1>>}          \* azimuth / pi
LinRats   == {R(i) : i \in LinVals}

AxisVals(cls, a, aunit) ==
  IF ~IsAngular(cls, a) THEN LinRats
  ELSE IF aunit = "rad" THEN RadVals
  ELSE IF AxisLabels(cls)[a] = "theta" /\ cls = "SphericalGrid3D" THEN PiTheta ELSE PiPhi

NMax(cls) == IF Dim(cls) = 3 THEN MaxN3 ELSE MaxN
FaceSeqs(cls, a, aunit) ==
  {SetToSortSeq(S, RLt) : S \in {T \in SUBSET AxisVals(cls, a, aunit) :
                                   Cardinality(T) \in 2..(NMax(cls) + 1)}}

AUnits(cls) == IF cls = "SphericalGrid3D" THEN {"pi"}
               ELSE IF \E a \in 1..Dim(cls) : IsAngular(cls, a) THEN {"rad", "pi"} ELSE {"rad"}

\* (N, L) form: L from a few lengths, N in 1..NMax
LVals(cls, a, aunit) ==
  IF ~IsAngular(cls, a) THEN {<<1, 1>>, <<2, 1>>, <<3, 2>>}
  ELSE IF aunit = "rad" THEN {<<1, 1>>, <<3, 2>>}
  ELSE IF AxisLabels(cls)[a] = "theta" /\ cls = "SphericalGrid3D" THEN {<<1, 1>>} ELSE {<<1, 1>>, <<2, 1>>}

Tuples(cls, F(_)) ==    \* all Dim-tuples with component a drawn from F(a)
  CASE Dim(cls) = 1 -> {<<x>> : x \in F(1)}
    [] Dim(cls) = 2 -> {<<x, y>> : x \in F(1), y \in F(2)}
    [] OTHER        -> {<<x, y, z>> : x \in F(1), y \in F(2), z \in F(3)}

FaceConfigs(cls) ==
  UNION {{[cls |-> cls, ctor |-> "faces", aunit |-> u, faces |-> f, N |-> <<>>, L |-> <<>>] :
            f \in Tuples(cls, LAMBDA a : FaceSeqs(cls, a, u))} : u \in AUnits(cls)}
NLConfigs(cls) ==
  UNION {{[cls |-> cls, ctor |-> "NL", aunit |-> u, N |-> n, L |-> l,
           faces |-> [a \in 1..Dim(cls) |-> EquiFaces(n[a], l[a])]] :
            n \in Tuples(cls, LAMBDA a : 1..NMax(cls)),
            l \in Tuples(cls, LAMBDA a : LVals(cls, a, u))} : u \in AUnits(cls)}
\* the (N, L) form of SphericalGrid3D in pi units needs Niven angles: N_theta = 1, L = pi
NLOk(c) == c.cls = "SphericalGrid3D" => c.N[2] = 1

Configs(cls) == FaceConfigs(cls) \cup {c \in NLConfigs(cls) : NLOk(c)}

Mesh(c) == [cls |-> c.cls, faces |-> c.faces, aunit |-> c.aunit]

Init == phase = "init" /\ cfg = <<>> /\ ref = <<>>
Pick == /\ phase = "init"
        /\ \E cls \in ClassSel : \E c \in Configs(cls) :
              /\ cfg' = c
              /\ (Emit => PrintT("@@ " \o ToJson(c @@ [piexp |-> PiExp(c.cls, c.aunit)])))
        /\ phase' = "picked" /\ ref' = <<>>
Eval == /\ phase = "picked"
        /\ ref' = RefMesh(Mesh(cfg))
        /\ phase' = "done" /\ cfg' = cfg
Next == Pick \/ Eval
Spec == Init /\ [][Next]_vars

-----------------------------------------------------------------------------
(* design-level properties *)
Done == phase = "done"
InvWellFormed == phase # "init" => WellFormed(Mesh(cfg))
InvC10 == Done => C10_Failing(Mesh(cfg), ref) = {}
\* geometric sanity of the reference itself, by formulas independent of RefMesh
InvPartition ==
  Done => LET g == Mesh(cfg) IN
    \A a \in 1..Dim(g.cls) :
       /\ RSumSeq(SubSeq(ref.cellsize[a], 2, NCells(g, a) + 1)) = Ext(g, a)
       /\ \A i \in 1..NCells(g, a) :
            /\ RLt(Face(g, a, i - 1), ref.cellcenters[a][i])
            /\ RLt(ref.cellcenters[a][i], Face(g, a, i))
            /\ ref.cellsize[a][i + 1] = RMul(R(2), RSub(Face(g, a, i), ref.cellcenters[a][i]))
InvNL == (Done /\ cfg.ctor = "NL") =>
           \A a \in 1..Dim(cfg.cls) :
              /\ Len(cfg.faces[a]) = cfg.N[a] + 1
              /\ cfg.faces[a][1] = RZero
              /\ cfg.faces[a][cfg.N[a] + 1] = cfg.L[a]
              /\ \A i \in 1..(cfg.N[a] + 2) : ref.cellsize[a][i] = RDiv(cfg.L[a], R(cfg.N[a]))
=============================================================================
