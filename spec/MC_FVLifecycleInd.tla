------------------------- MODULE MC_FVLifecycleInd --------------------------
(* Apalache instance: 3 variables, 3 BC objects, 2 sides. *)
BCs == {"b1", "b2", "b3"}
Vars == {"v1", "v2", "v3"}
Sides == {"s1", "s2"}
VARIABLES
  \* @type: Str -> Bool;
  bcAlive,
  \* @type: Str -> Int;
  bcC,
  \* @type: Str -> Set(Str);
  bcDirty,
  \* @type: Str -> Bool;
  everShared,
  \* @type: Str -> Bool;
  alive,
  \* @type: Str -> Str;
  bcOf,
  \* @type: Str -> Int;
  intC,
  \* @type: Str -> Int;
  ghostI,
  \* @type: Str -> Int;
  ghostB,
  \* @type: Str -> Int;
  cacheFrom,
  \* @type: Str -> Bool;
  valDirty
INSTANCE FVLifecycleInd
=============================================================================
