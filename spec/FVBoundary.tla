----------------------------- MODULE FVBoundary -----------------------------
(***************************************************************************)
(* Boundary conditions  a * dphi/de + b * phi = c  (e the axis direction)  *)
(* per boundary face, periodic flags per side, ghost values and the        *)
(* boundary rows of the linear system.                                     *)
(*                                                                         *)
(* bc = [side |-> [a, b, c : functions over the interior cells adjacent to *)
(*                 that side,  periodic : BOOLEAN]]                        *)
(* An axis is periodic when either of its two sides is flagged (this is    *)
(* how the code defines it).                                               *)
(***************************************************************************)
EXTENDS FVOperators, TLC

LoSide(a) == CASE a = 1 -> "left" [] a = 2 -> "bottom" [] a = 3 -> "back"
HiSide(a) == CASE a = 1 -> "right" [] a = 2 -> "top" [] a = 3 -> "front"
SideNames(g) == UNION {{LoSide(a), HiSide(a)} : a \in Axes(g)}
SideAxisOf(s) == IF s \in {"left", "right"} THEN 1 ELSE IF s \in {"bottom", "top"} THEN 2 ELSE 3
IsHigh(s) == s \in {"right", "top", "front"}

\* interior cells adjacent to side s, and the ghost cell behind each
Adjacent(g, s) == LET a == SideAxisOf(s)
                  IN  {c \in Interior(g) : c[a] = (IF IsHigh(s) THEN NCells(g, a) ELSE 1)}
GhostOf(g, s, P) == Shift(P, SideAxisOf(s), IF IsHigh(s) THEN 1 ELSE -1)

PeriodicAxis(g, bc, a) == bc[LoSide(a)].periodic \/ bc[HiSide(a)].periodic

\* a / (G * end cell size) for the boundary face of side s next to interior cell P
AOverD(g, bc, s, P) ==
  LET a == SideAxisOf(s)
      d == Size(g, a, IF IsHigh(s) THEN NCells(g, a) + 1 ELSE 0)
  IN  RDiv(bc[s].a[P], RMul(GScale(g, a, P), d))

\* coefficient of the upper / lower cell of the boundary face in the Robin relation
CoefHi(g, bc, s, P) == RAdd(RMul(RHalf, bc[s].b[P]), AOverD(g, bc, s, P))
CoefLo(g, bc, s, P) == RSub(RMul(RHalf, bc[s].b[P]), AOverD(g, bc, s, P))
\* the BC is usable (the code divides by the ghost coefficient)
NonSingular(g, bc) ==
  \A s \in SideNames(g) : ~PeriodicAxis(g, bc, SideAxisOf(s)) =>
     \A P \in Adjacent(g, s) :
        ~RIsZero(IF IsHigh(s) THEN CoefHi(g, bc, s, P) ELSE CoefLo(g, bc, s, P))

\* Robin relation at the boundary face of side s next to P, for a full field phi
RobinResidual(g, bc, s, P, phi) ==
  LET gh == GhostOf(g, s, P)
      hi == IF IsHigh(s) THEN phi[gh] ELSE phi[P]
      lo == IF IsHigh(s) THEN phi[P] ELSE phi[gh]
  IN  RSub(RAdd(RMul(CoefHi(g, bc, s, P), hi), RMul(CoefLo(g, bc, s, P), lo)), bc[s].c[P])

\* ghost value that makes the Robin relation hold
GhostValue(g, bc, s, P, phiP) ==
  IF IsHigh(s)
  THEN RDiv(RSub(bc[s].c[P], RMul(CoefLo(g, bc, s, P), phiP)), CoefHi(g, bc, s, P))
  ELSE RDiv(RSub(bc[s].c[P], RMul(CoefHi(g, bc, s, P), phiP)), CoefLo(g, bc, s, P))

\* full field from interior values (ghost cells from the BCs; corner/edge cells inert = 0)
GhostValues(g, bc, phi) ==
  [c \in AllCells(g) |->
     IF GhostDegree(g, c) = 0 THEN phi[c]
     ELSE IF GhostDegree(g, c) > 1 THEN RZero
     ELSE LET a == CHOOSE x \in Axes(g) : c[x] = 0 \/ c[x] = NCells(g, x) + 1
              high == c[a] # 0
              s == IF high THEN HiSide(a) ELSE LoSide(a)
              P == Shift(c, a, IF high THEN -1 ELSE 1)
          IN  IF PeriodicAxis(g, bc, a)
              THEN phi[[c EXCEPT ![a] = IF high THEN 1 ELSE NCells(g, a)]]
              ELSE GhostValue(g, bc, s, P, phi[P])]

\* boundary rows of the system: matrix and right-hand side (inert cells: unit diagonal, RHS 0)
BCRowsM(g, bc) ==
  LET ghostRow(c) ==
        LET a == CHOOSE x \in Axes(g) : c[x] = 0 \/ c[x] = NCells(g, x) + 1
            high == c[a] # 0
            s == IF high THEN HiSide(a) ELSE LoSide(a)
            N == NCells(g, a)
            P == Shift(c, a, IF high THEN -1 ELSE 1)
            at(i) == [c EXCEPT ![a] = i]
        IN  IF PeriodicAxis(g, bc, a)
            THEN IF high
                 THEN LET q == RDiv(Size(g, a, N + 1), Size(g, a, 0))
                      IN  IF N = 1    \* cells 1 and N coincide: the two entries add up
                          THEN (at(N + 1) :> ROne) @@ (at(1) :> RNeg(RAdd(ROne, q))) @@ (at(0) :> q)
                          ELSE (at(N + 1) :> ROne) @@ (at(N) :> RNeg(ROne)) @@ (at(0) :> q) @@ (at(1) :> RNeg(q))
                 ELSE \* N = 1: cells 1 and N coincide and cancel
                      IF N = 1 THEN (at(0) :> ROne) @@ (at(N + 1) :> RNeg(ROne))
                      ELSE (at(0) :> ROne) @@ (at(1) :> ROne) @@ (at(N) :> RNeg(ROne)) @@ (at(N + 1) :> RNeg(ROne))
            ELSE IF high
                 THEN (c :> CoefHi(g, bc, s, P)) @@ (P :> CoefLo(g, bc, s, P))
                 ELSE (P :> RNeg(CoefHi(g, bc, s, P))) @@ (c :> RNeg(CoefLo(g, bc, s, P)))
      rowOf(c) == IF GhostDegree(g, c) > 1 THEN (c :> ROne) ELSE ghostRow(c)
      rows == {c \in AllCells(g) : GhostDegree(g, c) >= 1}
      dom == UNION {{<<c, q>> : q \in DOMAIN rowOf(c)} : c \in rows}
  IN  Prune([p \in dom |-> rowOf(p[1])[p[2]]])

BCRowsRHS(g, bc) ==
  [c \in AllCells(g) |->
     IF GhostDegree(g, c) # 1 THEN RZero
     ELSE LET a == CHOOSE x \in Axes(g) : c[x] = 0 \/ c[x] = NCells(g, x) + 1
              high == c[a] # 0
              s == IF high THEN HiSide(a) ELSE LoSide(a)
              P == Shift(c, a, IF high THEN -1 ELSE 1)
          IN  IF PeriodicAxis(g, bc, a) THEN RZero
              ELSE IF high THEN bc[s].c[P] ELSE RNeg(bc[s].c[P])]

\* default boundary conditions (no flux everywhere, nothing periodic)
DefaultBC(g) ==
  [s \in SideNames(g) |->
     [a |-> [P \in Adjacent(g, s) |-> ROne], b |-> [P \in Adjacent(g, s) |-> RZero],
      c |-> [P \in Adjacent(g, s) |-> RZero], periodic |-> FALSE]]
=============================================================================
