-------------------------- MODULE FVDesignLimiter ---------------------------
(***************************************************************************)
(* Design-level check of the limiter formulas on a rational grid and       *)
(* generator of the evaluation requests replayed into fluxLimiter().       *)
(***************************************************************************)
EXTENDS FVLimiters, Json, TLC, SequencesExt

CONSTANTS PMax, Dens, ExtraNames
VARIABLES phase, name, r, v
vars == <<phase, name, r, v>>

Grid == {Norm(p, q) : p \in (-PMax)..PMax, q \in Dens}
     \cup {<<-3, 1>>, <<-2, 1>>, <<-1, 1>>, <<1, 3>>, <<1, 2>>, <<2, 3>>, <<3, 4>>, <<5, 1>>, <<13, 3>>}
AllNames == Names \cup ExtraNames

Init == phase = "init" /\ name = "" /\ r = RZero /\ v = RZero
Pick == /\ phase = "init"
        /\ \E n \in AllNames :
             /\ name' = n
             /\ PrintT("@@ " \o ToJson([name |-> n, grid |-> SetToSeq(Grid), huge |-> HiLo(n, TRUE),
                                        hugeneg |-> HiLo(n, FALSE)]))
        /\ phase' = "named" /\ UNCHANGED <<r, v>>
Eval == /\ phase = "named"
        /\ \E x \in Grid : r' = x /\ v' = Psi(name, x)
        /\ phase' = "done" /\ UNCHANGED name
Next == Pick \/ Eval
Spec == Init /\ [][Next]_vars

Done == phase = "done"
InvOne      == (Done /\ r = ROne) => v = ROne
InvTVD      == Done => TVDBound(r, v)
InvClip     == Done => ClipZero(name, r, v)
InvNonNegFamily == (Done /\ name \in {"CHARM", "HCUS", "HQUICK"} /\ RLe(r, RZero)) => v = RZero
InvSymmetric == (Done /\ name \in Symmetric /\ RPos(r)) => RDiv(v, r) = Psi(name, RInv(r))
InvFallback == (Done /\ name \notin Names) => v = Psi("SUPERBEE", r)
=============================================================================
