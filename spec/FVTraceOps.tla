----------------------------- MODULE FVTraceOps -----------------------------
(***************************************************************************)
(* Trace validation of the numeric layer.  An episode records one          *)
(* configuration (mesh, coefficient fields, boundary conditions, field)    *)
(* and everything the real builders returned for it, lifted to exact       *)
(* rationals.  For every episode TLC evaluates                             *)
(*   - the property clauses named in e.wanted (predicates of FVProperties  *)
(*     on the OBSERVED values) -> `failing'                                *)
(*   - conformance of the observed outputs named in e.conform to the       *)
(*     reference semantics FVOperators / FVBoundary -> `nonconf'           *)
(*     (a tripwire, never a verdict: DESIGN section 4)                     *)
(* and prints one total verdict record.                                    *)
(***************************************************************************)
EXTENDS FVProperties, Json, IOUtils

Trace == JsonDeserialize(IOEnv.TRACE_FILE).episodes
VARIABLE i

-----------------------------------------------------------------------------
(* JSON (nested arrays in the code's layout) -> spec structures *)
MeshOf(c) == [cls |-> c.cls, faces |-> c.faces, aunit |-> c.aunit]
\* full array (dims+2), 0-based cell indices
At(arr, c) == CASE Len(c) = 1 -> arr[c[1] + 1]
                [] Len(c) = 2 -> arr[c[1] + 1][c[2] + 1]
                [] OTHER      -> arr[c[1] + 1][c[2] + 1][c[3] + 1]
FieldOf(g, arr) == [c \in AllCells(g) |-> At(arr, c)]
\* interior-shaped array (dims): defined on interior cells, zero elsewhere
AtI(arr, c) == CASE Len(c) = 1 -> arr[c[1]]
                 [] Len(c) = 2 -> arr[c[1]][c[2]]
                 [] OTHER      -> arr[c[1]][c[2]][c[3]]
IntFieldOf(g, arr) == [c \in AllCells(g) |-> IF c \in Interior(g) THEN AtI(arr, c) ELSE RZero]
\* component array of a face variable along axis a
FAt(arr, a, f) ==
  LET ix(b) == IF b = a THEN f[b] + 1 ELSE f[b] IN
  CASE Len(f) = 1 -> arr[ix(1)]
    [] Len(f) = 2 -> arr[ix(1)][ix(2)]
    [] OTHER      -> arr[ix(1)][ix(2)][ix(3)]
FaceFieldOf(g, arrs) == [id \in FaceIds(g) |-> FAt(arrs[id[1]], id[1], id[2])]
\* sparse matrix: sequence of <<row cell, column cell, value>>, canonical (no zeros, no duplicates)
MatOf(seq) ==
  LET S == ToSet(seq)
      dom == {<<e[1], e[2]>> : e \in S}
  IN  [p \in dom |-> (CHOOSE e \in S : e[1] = p[1] /\ e[2] = p[2])[3]]
\* coefficient array of one side: indexed by the transverse interior indices
TransAt(arr, a, P) ==
  CASE Len(P) = 1 -> arr[1]
    [] Len(P) = 2 -> arr[P[3 - a]]
    [] OTHER      -> LET o == SetToSortSeq({1, 2, 3} \ {a}, <) IN arr[P[o[1]]][P[o[2]]]
BCOf(g, j) ==
  [s \in SideNames(g) |->
     [a |-> [P \in Adjacent(g, s) |-> TransAt(j[s].a, SideAxisOf(s), P)],
      b |-> [P \in Adjacent(g, s) |-> TransAt(j[s].b, SideAxisOf(s), P)],
      c |-> [P \in Adjacent(g, s) |-> TransAt(j[s].c, SideAxisOf(s), P)],
      periodic |-> j[s].periodic]]

AnyNaRField(f) == \E c \in DOMAIN f : f[c][2] = 0
AnyNaRMat(M) == \E p \in DOMAIN M : M[p][2] = 0

-----------------------------------------------------------------------------
(* conformance of one observed output to the reference semantics *)
Conforms(e, name) ==
  LET g == MeshOf(e.cfg)
      o == e.obs
      cf == e.cfg
  IN
  CASE name = "Mdiff"  -> MatOf(o.Mdiff) = DiffusionRows(g, FaceFieldOf(g, cf.D))
    [] name = "Mconv"  -> MatOf(o.Mconv) = CentralRows(g, FaceFieldOf(g, cf.u))
    [] name = "Mup"    -> MatOf(o.Mup) = UpwindRows(g, FaceFieldOf(g, cf.u), FaceFieldOf(g, cf.u))
    [] name = "Mupalt" -> MatOf(o.Mupalt) = UpwindRows(g, FaceFieldOf(g, cf.u), FaceFieldOf(g, cf.uup))
    [] name = "ghost"  -> FieldOf(g, o.ghost) = GhostValues(g, BCOf(g, cf.bc), FieldOf(g, cf.phi))
    [] name = "Rbc"    -> FieldOf(g, o.Rbc) = BCRowsRHS(g, BCOf(g, cf.bc))
    [] name = "Mbc"    -> \* inert (corner / edge) rows may carry any non-zero diagonal
         LET M == MatOf(o.Mbc)  RR == BCRowsM(g, BCOf(g, cf.bc))
             live(p) == GhostDegree(g, p[1]) = 1
         IN  /\ {p \in DOMAIN M : live(p)} = {p \in DOMAIN RR : live(p)}
             /\ \A p \in DOMAIN M : live(p) => M[p] = RR[p]
             /\ \A p \in DOMAIN M : ~live(p) => p[1] = p[2] /\ GhostDegree(g, p[1]) > 1
             /\ \A c \in AllCells(g) : GhostDegree(g, c) > 1 => <<c, c>> \in DOMAIN M
    [] name = "grad"   -> FaceFieldOf(g, o.grad) = Grad(g, FieldOf(g, cf.phi))
    [] name = "divu"   -> FieldOf(g, o.divu) = Div(g, FaceFieldOf(g, cf.u))
    [] name = "linmean"   -> FaceFieldOf(g, o.linmean) = LinearMean(g, FieldOf(g, cf.phi))
    [] name = "arithmean" -> FaceFieldOf(g, o.arithmean) = ArithmeticMean(g, FieldOf(g, cf.phi))
    [] name = "harmmean"  -> FaceFieldOf(g, o.harmmean) = HarmonicMean(g, FieldOf(g, cf.phi))
    [] name = "upmean"    -> FaceFieldOf(g, o.upmean) =
                               UpwindMean(g, FieldOf(g, cf.phi), FaceFieldOf(g, cf.u))
    [] name = "tvd1"   -> FieldOf(g, o.tvd1) =
                            TvdRHS(g, FaceFieldOf(g, cf.u), FaceFieldOf(g, cf.uup), FieldOf(g, cf.phi), "unit")
    [] name = "Msrc"   -> MatOf(o.Msrc) = LinearSourceRows(g, IntFieldOf(g, cf.beta))
    [] name = "Rsrc"   -> FieldOf(g, o.Rsrc) = ConstantSourceVec(g, IntFieldOf(g, cf.gamma))

-----------------------------------------------------------------------------
(* property clauses on the observed values *)
Holds(e, name) ==
  LET g == MeshOf(e.cfg)
      o == e.obs
      cf == e.cfg
      V == IntFieldOf(g, o.volume)
      bc == BCOf(g, cf.bc)
  IN
  CASE name = "C05_Diffusion" -> C05_Agree(g, MatOf(o.Mdiff), MatOf(o.chain_diff))
    [] name = "C05_Central"   -> C05_Agree(g, MatOf(o.Mconv), MatOf(o.chain_conv))
    [] name = "C05_Upwind"    -> C05_Agree(g, MatOf(o.Mup), MatOf(o.chain_up))
    [] name = "C05_UpwindAlt" -> C05_Agree(g, MatOf(o.Mupalt), MatOf(o.chain_upalt))
    [] name = "C06_DiffConst" -> C06_DiffConst(g, MatOf(o.Mdiff))
    [] name = "C06_CentralConst" -> C06_AdvConst(g, MatOf(o.Mconv), FieldOf(g, o.divu))
    [] name = "C06_UpwindConst"  -> C06_AdvConst(g, MatOf(o.Mup), FieldOf(g, o.divu))
    [] name = "C06_UpwindAltConst" -> C06_AdvConst(g, MatOf(o.Mupalt), FieldOf(g, o.divu))
    [] name = "C06_SourceDiag" -> C06_SourceDiag(g, MatOf(o.Msrc), IntFieldOf(g, cf.beta))
    [] name = "C06_SourceForms" ->
         /\ \A k \in DOMAIN o.srcforms.M : C06_SourceDiag(g, MatOf(o.srcforms.M[k]), IntFieldOf(g, cf.beta))
         /\ \A k \in DOMAIN o.srcforms.R : C06_SourceVec(g, FieldOf(g, o.srcforms.R[k]), IntFieldOf(g, cf.gamma))
    [] name = "C06_SourceVec"  -> C06_SourceVec(g, FieldOf(g, o.Rsrc), IntFieldOf(g, cf.gamma))
    [] name = "C01_ClosedDiffusion" -> C01_ClosedMatrix(g, V, MatOf(o.Mdiff))
    [] name = "C01_ClosedCentral"   -> C01_ClosedMatrix(g, V, MatOf(o.Mconv))
    [] name = "C01_ClosedUpwind"    -> C01_ClosedMatrix(g, V, MatOf(o.Mup))
    [] name = "C01_ClosedDivergence" -> C01_ClosedVector(g, V, FieldOf(g, o.divu))
    [] name = "C03_Robin"     -> C03_Robin(g, bc, FieldOf(g, o.ghost))
    [] name = "C03_Periodic"  -> C03_Periodic(g, bc, FieldOf(g, o.ghost))
    [] name = "C03_InteriorKept" -> C03_InteriorKept(g, FieldOf(g, cf.phi), FieldOf(g, o.ghost))
    [] name = "C03_RowsSatisfied" ->
         C03_RowsSatisfied(g, bc, MatOf(o.Mbc), FieldOf(g, o.Rbc), FieldOf(g, o.ghost))
    [] name = "C03_RowsEncodeRobin" -> C03_RowsEncodeRobin(g, bc, MatOf(o.Mbc), FieldOf(g, o.Rbc))
    [] name = "C03_RowsOnGhostOnly" -> C03_RowsOnGhostOnly(g, MatOf(o.Mbc), FieldOf(g, o.Rbc))
    [] name = "C03_ScaleInvariant" ->
         C03_ScaleInvariant(g, bc, cf.lam, FieldOf(g, o.ghost), FieldOf(g, o.ghostS),
                            MatOf(o.Mbc), FieldOf(g, o.Rbc), MatOf(o.MbcS), FieldOf(g, o.RbcS))
    [] name = "C03_RobinCtor"     -> C03_Robin(g, bc, FieldOf(g, o.f_ctor))
    [] name = "C03_RobinApply"    -> C03_Robin(g, bc, FieldOf(g, o.f_apply))
    [] name = "C03_RobinSolve"    -> C03_Robin(g, bc, FieldOf(g, o.f_solve))
    [] name = "C03_RobinExplicit" -> C03_Robin(g, bc, FieldOf(g, o.f_explicit))
    [] name = "C03_CtorForms" ->      \* integer-typed / Fortran-ordered / strided interior arrays: same ghost values
         \A k \in DOMAIN o.f_ctor_forms :
            /\ C03_Robin(g, bc, FieldOf(g, o.f_ctor_forms[k])) /\ C03_Periodic(g, bc, FieldOf(g, o.f_ctor_forms[k]))
            /\ C03_InteriorKept(g, FieldOf(g, cf.phi), FieldOf(g, o.f_ctor_forms[k]))
    [] name = "C03_PeriodicCtor"     -> C03_Periodic(g, bc, FieldOf(g, o.f_ctor))
    [] name = "C03_PeriodicApply"    -> C03_Periodic(g, bc, FieldOf(g, o.f_apply))
    [] name = "C03_PeriodicSolve"    -> C03_Periodic(g, bc, FieldOf(g, o.f_solve))
    [] name = "C03_PeriodicExplicit" -> C03_Periodic(g, bc, FieldOf(g, o.f_explicit))
    [] name = "C03_InteriorKeptCtor" -> C03_InteriorKept(g, FieldOf(g, cf.phi), FieldOf(g, o.f_ctor))
    [] name = "C03_SolveRowsSatisfied" ->
         C03_RowsSatisfied(g, bc, MatOf(o.Mbc), FieldOf(g, o.Rbc), FieldOf(g, o.f_solve))
    [] name = "C03_PlotProfile"   -> /\ C03_PlotProfile(g, FieldOf(g, o.f_solve), FieldOf(g, o.profile))
                                     /\ o.profile_pure
    [] name = "C01_OpenDiffusion" ->
         C01_OpenMatrix(g, V, MatOf(o.Mdiff), FieldOf(g, cf.phi), FMul(FaceFieldOf(g, cf.D), FaceFieldOf(g, o.grad)))
    [] name = "C01_OpenCentral" ->
         C01_OpenMatrix(g, V, MatOf(o.Mconv), FieldOf(g, cf.phi), FMul(FaceFieldOf(g, cf.u), FaceFieldOf(g, o.linmean)))
    [] name = "C01_OpenUpwind" ->
         C01_OpenMatrix(g, V, MatOf(o.Mup), FieldOf(g, cf.phi), FMul(FaceFieldOf(g, cf.u), FaceFieldOf(g, o.upmean)))
    [] name = "C01_ClosedDiffusionMid" -> C01_ClosedMatrix(g, MidVolume(g), MatOf(o.Mdiff))
    [] name = "C01_ClosedCentralMid"   -> C01_ClosedMatrix(g, MidVolume(g), MatOf(o.Mconv))
    [] name = "C01_ClosedUpwindMid"    -> C01_ClosedMatrix(g, MidVolume(g), MatOf(o.Mup))
    [] name = "C01_ClosedDivergenceMid" -> C01_ClosedVector(g, MidVolume(g), FieldOf(g, o.divu))
    [] name = "C01_PeriodicDiffusion"  -> C01_ClosedPeriodic(g, bc, V, MatOf(o.Mdiff))
    [] name = "C01_PeriodicCentral"    -> C01_ClosedPeriodic(g, bc, V, MatOf(o.Mconv))
    [] name = "C01_PeriodicUpwind"     -> C01_ClosedPeriodic(g, bc, V, MatOf(o.Mup))
    [] name = "C04_Solves" -> C04_Solves(g, FieldOf(g, cf.xstar), FieldOf(g, o.r_solve))
    [] name = "C04_SameObject" -> o.flags.same_object /\ o.flags.terms_untouched
    [] name = "C04_SameAsMatrixPDE" ->
         C04_SameInterior(g, FieldOf(g, o.r_solve), IntFieldOf(g, o.r_matrix))
    [] name = "C04_ExternalSolver" ->
         /\ o.flags.external_called
         /\ MatOf(o.Mext) = MatOf(o.Mhand)
         /\ FieldOf(g, o.Rext) = FieldOf(g, o.Rhand)
         /\ C04_SameInterior(g, IntFieldOf(g, o.r_ext), FieldOf(g, cf.xstar2))
    [] name = "C04_Variants" ->
         \A v \in DOMAIN o.r_variants : C04_Solves(g, FieldOf(g, cf.xstar), FieldOf(g, o.r_variants[v]))
    [] name = "C04_Linear" ->
         C04_Linear(g, FieldOf(g, o.r_solve), FieldOf(g, o.r_solve2), FieldOf(g, o.r_sum))
    [] name = "C04_Assembly" ->
         C04_Assembly(g, MatOf(o.Mhand), FieldOf(g, o.Rhand), MatOf(o.Mbc), FieldOf(g, o.Rbc),
                      MatOf(o.Aspatial), IntFieldOf(g, cf.alpha), cf.dt, IntFieldOf(g, cf.old),
                      IntFieldOf(g, o.gamma))
    [] name = "C12_Residual" ->
         C12_Residual(g, IntFieldOf(g, cf.alpha), cf.dt, IntFieldOf(g, cf.old), MatOf(o.Aspatial),
                      IntFieldOf(g, o.gamma), FieldOf(g, o.r_solve))
    [] name = "C12_History" -> C04_Solves(g, FieldOf(g, cf.xstar2), FieldOf(g, o.r_history))
    [] name = "C12_HistoryAlpha" -> C04_Solves(g, FieldOf(g, cf.xstar2), FieldOf(g, o.r_history_alpha))
    [] name = "C12_Retry" -> o.flags.bad_term_rejected /\ C04_Solves(g, FieldOf(g, cf.xstar), FieldOf(g, o.r_retry))
    [] name = "C12_HistoryPeriodic" -> C04_Solves(g, FieldOf(g, cf.xstar), FieldOf(g, o.r_history_per))
    [] name = "C12_Limits" ->      \* floating-point observation, generous thresholds (DESIGN 8): 1e-9 units
         o.limits.checked =>
            /\ o.limits.inf <= 100000          \* |x(dt=1e12) - steady| <= 1e-4 (relative to the data)
            /\ o.limits.zero <= 100000         \* |x(dt=1e-12) - old|   <= 1e-4
            /\ o.limits.ratio_milli >= 2000    \* implicit - explicit difference at least halves twice... O(dt^2): ~4
    [] name = "C12_FixedPoint" -> C04_Solves(g, FieldOf(g, cf.xstar), FieldOf(g, o.r_fixed))
    [] name = "C12_ExplicitStep" ->
         C12_ExplicitStep(g, o.dt_explicit, FieldOf(g, o.in_explicit), FieldOf(g, o.rhs_explicit),
                          FieldOf(g, o.r_explicit))
    [] name = "C12_ExplicitBCs" ->
         C03_Robin(g, bc, FieldOf(g, o.r_explicit)) /\ C03_Periodic(g, bc, FieldOf(g, o.r_explicit))
    [] name = "C12_InputUntouched" ->
         /\ o.flags.explicit_input_untouched /\ o.flags.explicit_new_object
         /\ o.flags.explicit_rhs_untouched /\ o.flags.explicit_repeat_same
    [] name = "C12_ExplicitUsable" ->
         /\ o.flags.explicit_then_implicit = "ok"
         /\ C04_Solves(g, FieldOf(g, cf.xstar), FieldOf(g, o.r_after_explicit))
    [] name = "C03_SolvedRobin" ->
         C03_Robin(g, bc, FieldOf(g, o.r_solve)) /\ C03_Periodic(g, bc, FieldOf(g, o.r_solve))
    [] name = "C17_Mdiff"  -> C17_MatScaled(MatOf(o.Mdiff), MatOf(o.S.Mdiff), ScaleFactor(OutputDim(g.cls, "Mdiff"), cf.L, cf.T, cf.K))
    [] name = "C17_Mconv"  -> C17_MatScaled(MatOf(o.Mconv), MatOf(o.S.Mconv), ScaleFactor(OutputDim(g.cls, "Mconv"), cf.L, cf.T, cf.K))
    [] name = "C17_Mup"    -> C17_MatScaled(MatOf(o.Mup), MatOf(o.S.Mup), ScaleFactor(OutputDim(g.cls, "Mup"), cf.L, cf.T, cf.K))
    [] name = "C17_Mupalt" -> C17_MatScaled(MatOf(o.Mupalt), MatOf(o.S.Mupalt), ScaleFactor(OutputDim(g.cls, "Mupalt"), cf.L, cf.T, cf.K))
    [] name = "C17_Msrc"   -> C17_MatScaled(MatOf(o.Msrc), MatOf(o.S.Msrc), ScaleFactor(OutputDim(g.cls, "Msrc"), cf.L, cf.T, cf.K))
    [] name = "C17_Rsrc"   -> C17_VecScaled(FieldOf(g, o.Rsrc), FieldOf(g, o.S.Rsrc), ScaleFactor(OutputDim(g.cls, "Rsrc"), cf.L, cf.T, cf.K))
    [] name = "C17_Mbc"    -> \* inert corner / edge rows are excluded (their diagonal is arbitrary)
         LET live(M) == [p \in {q \in DOMAIN M : GhostDegree(g, q[1]) = 1} |-> M[p]]
         IN  C17_MatScaled(live(MatOf(o.Mbc)), live(MatOf(o.S.Mbc)), ScaleFactor(OutputDim(g.cls, "Mbc"), cf.L, cf.T, cf.K))
    [] name = "C17_Rbc"    -> C17_VecScaled(FieldOf(g, o.Rbc), FieldOf(g, o.S.Rbc), ScaleFactor(OutputDim(g.cls, "Rbc"), cf.L, cf.T, cf.K))
    [] name = "C17_ghost"  -> C17_VecScaled(FieldOf(g, o.ghost), FieldOf(g, o.S.ghost), ScaleFactor(OutputDim(g.cls, "ghost"), cf.L, cf.T, cf.K))
    [] name = "C17_divu"   -> C17_VecScaled(FieldOf(g, o.divu), FieldOf(g, o.S.divu), ScaleFactor(OutputDim(g.cls, "divu"), cf.L, cf.T, cf.K))
    [] name = "C17_volume" -> C17_VecScaled(IntFieldOf(g, o.volume), IntFieldOf(g, o.S.volume), ScaleFactor(OutputDim(g.cls, "volume"), cf.L, cf.T, cf.K))
    [] name = "C17_linmean" -> C17_VecScaled(FaceFieldOf(g, o.linmean), FaceFieldOf(g, o.S.linmean), cf.K)
    [] name = "C17_upmean"  -> C17_VecScaled(FaceFieldOf(g, o.upmean), FaceFieldOf(g, o.S.upmean), cf.K)
    [] name = "C17_tvd"    -> \A k \in DOMAIN o.tvdnamed :
         C17_VecScaled(FieldOf(g, o.tvdnamed[k]), FieldOf(g, o.S.tvdnamed[k]), ScaleFactor(OutputDim(g.cls, "tvd"), cf.L, cf.T, cf.K))
    [] name = "C17_grad"   ->
         \A id \in FaceIds(g) :
            FaceFieldOf(g, o.S.grad)[id] =
               RMul(RDiv(cf.K, cf.L), FaceFieldOf(g, o.grad)[id])
    [] name = "C17_solution" -> C17_VecScaled(FieldOf(g, o.r_solve), FieldOf(g, o.S.r_solve), cf.K)
    [] name = "C17_Decades" ->      \* every entry ratio is 10^(l*kL + t*kT + k*kK) (9999 = not a power of ten)
         \A nm \in DOMAIN o.decades :
            LET dm == OutputDim(g.cls, nm)
                want == dm[1] * cf.dec[1] + dm[2] * cf.dec[2] + dm[3] * cf.dec[3]
            IN  \A j \in 1..Len(o.decades[nm]) : o.decades[nm][j] = want
    [] name = "C17_LinearDiff" -> C17_MatLinear(MatOf(o.Mdiff), MatOf(o.Lin.Mdiff2), MatOf(o.Lin.Mdiff12), cf.lam, cf.mu)
    [] name = "C17_LinearConv" -> C17_MatLinear(MatOf(o.Mconv), MatOf(o.Lin.Mconv2), MatOf(o.Lin.Mconv12), cf.lam, cf.mu)
    [] name = "C17_LinearUp"   -> C17_MatLinear(MatOf(o.Mupalt), MatOf(o.Lin.Mup2), MatOf(o.Lin.Mup12), cf.lam, cf.mu)
    [] name = "C17_LinearTvd"  ->      \* the TVD correction is linear in u at fixed upwind direction and field
         \A k \in DOMAIN o.tvdnamed : \A c \in Interior(g) :
            FieldOf(g, o.Lin.tvd12[k])[c] =
               RAdd(RMul(cf.lam, FieldOf(g, o.tvdnamed[k])[c]), RMul(cf.mu, FieldOf(g, o.Lin.tvd2[k])[c]))
    [] name = "C17_LinearSrc"  -> C17_MatLinear(MatOf(o.Msrc), MatOf(o.Lin.Msrc2), MatOf(o.Lin.Msrc12), cf.lam, cf.mu)
    [] name = "C05_TvdZero" -> VecZero(g, FieldOf(g, o.tvd0))
    [] name = "C05_TvdUnit" ->
         C05_TvdUnit(g, MatOf(o.Mupalt), MatOf(o.Mconv), FieldOf(g, o.tvd1), FieldOf(g, cf.phi))
    [] name = "C13_TvdFinite" -> \A k \in DOMAIN o.tvdnamed : VecFinite(g, FieldOf(g, o.tvdnamed[k]))
    [] name = "C13_TvdInterior" -> \A k \in DOMAIN o.tvdnamed : VecInteriorOnly(g, FieldOf(g, o.tvdnamed[k]))
    [] name = "C13_TvdFormula" ->
         \A k \in DOMAIN o.tvdnamed :
            FieldOf(g, o.tvdnamed[k]) =
               TvdRHS(g, FaceFieldOf(g, cf.u), FaceFieldOf(g, cf.uup), FieldOf(g, cf.phi), k)
    [] name = "C06_TvdConst" -> \A k \in DOMAIN o.tvdconst : VecZero(g, FieldOf(g, o.tvdconst[k]))
    [] name = "C01_ClosedTvd" -> \A k \in DOMAIN o.tvdnamed : C01_ClosedVector(g, V, FieldOf(g, o.tvdnamed[k]))
    [] name = "C01_ClosedTvdMid" ->
         \A k \in DOMAIN o.tvdnamed : C01_ClosedVector(g, MidVolume(g), FieldOf(g, o.tvdnamed[k]))
    [] name = "C11_Linear"     -> FaceFieldOf(g, o.linmean) = LinearMean(g, FieldOf(g, cf.phi))
    [] name = "C11_Arithmetic" -> FaceFieldOf(g, o.arithmean) = ArithmeticMean(g, FieldOf(g, cf.phi))
    [] name = "C11_Harmonic"   -> FaceFieldOf(g, o.harmmean) = HarmonicMean(g, FieldOf(g, cf.phi))
    [] name = "C11_Upwind"     -> FaceFieldOf(g, o.upmean) =
                                    UpwindMean(g, FieldOf(g, cf.phi), FaceFieldOf(g, cf.u))
    [] name = "C11_UpwindRepeat" -> FaceFieldOf(g, o.upmean_again) =
                                    UpwindMean(g, FieldOf(g, cf.phi), FaceFieldOf(g, cf.u))
    [] name = "C11_Geometric"  -> C11_GeoRelation(g, FieldOf(g, cf.phi), FaceFieldOf(g, o.geomean))
    [] name = "C11_Between" ->
         \A k \in {"linmean", "arithmean", "harmmean", "geomean", "upmean"} :
            C11_Between(g, FieldOf(g, cf.phi), FaceFieldOf(g, o[k]))
    [] name = "C11_Ordering" ->
         C11_Ordering(g, FaceFieldOf(g, o.harmmean), FaceFieldOf(g, o.geomean), FaceFieldOf(g, o.arithmean))
    [] name = "C11_Constants" ->
         \A k \in DOMAIN o.constmeans : C11_Const(g, cf.const, FaceFieldOf(g, o.constmeans[k]))
    [] name = "C11_Homogeneous" -> \A k \in DOMAIN o.meanflags.homogeneous : o.meanflags.homogeneous[k]
    [] name = "C11_InputForms"  -> \A k \in DOMAIN o.meanflags.forms : o.meanflags.forms[k]
    [] name = "C11_LinearExact" ->
         C11_LinearExact(g, cf.lin_alpha, cf.lin_beta, FaceFieldOf(g, o.linmean_linear))
    [] name = "C06_SourceSolve" ->
         \A P \in Interior(g) :
            RMul(IntFieldOf(g, o.r_source)[P], RAdd(IntFieldOf(g, cf.beta)[P], ROne)) = IntFieldOf(g, cf.gamma)[P]
    [] name = "C06_Steady" ->
         \A k \in DOMAIN o.steady : \A c \in Interior(g) : IntFieldOf(g, o.steady[k])[c] = cf.const
    [] name = "C01_ClosedStepCentral" ->
         \A k \in 1..Len(o.integrals.implicit_central) : o.integrals.implicit_central[k] = o.integrals.implicit_central[1]
    [] name = "C01_ClosedStepUpwind" ->
         \A k \in 1..Len(o.integrals.implicit_upwind) : o.integrals.implicit_upwind[k] = o.integrals.implicit_upwind[1]
    [] name = "C01_ClosedStepExplicit" ->
         \A k \in 1..Len(o.integrals.explicit) : o.integrals.explicit[k] = o.integrals.explicit[1]
    [] name = "C01_ClosedStepExplicitUpdate" ->
         \A k \in 1..Len(o.integrals.explicit_update) : o.integrals.explicit_update[k] = o.integrals.explicit_update[1]
    [] name = "C07_Premise" -> VecZero(g, FieldOf(g, o.divu))
    [] name = "C07_SignStructure" -> C07_SignStructure(g, MatOf(o.Mdiff), MatOf(o.Mup), MatOf(o.Msrc))
    [] name = "C07_Hull" -> C07_Hull(o.steps)
    [] name = "C08_Geometry"  -> C08_Geometry(cf.tr, g, MeshOf(cf.big))
    [] name = "C08_Diffusion" -> C08_Apply(cf.tr, g, MeshOf(cf.big), MatOf(o.Mdiff), MatOf(o.B.Mdiff), FieldOf(g, cf.phi))
    [] name = "C08_Central"   -> C08_Apply(cf.tr, g, MeshOf(cf.big), MatOf(o.Mconv), MatOf(o.B.Mconv), FieldOf(g, cf.phi))
    [] name = "C08_Upwind"    -> C08_Apply(cf.tr, g, MeshOf(cf.big), MatOf(o.Mup), MatOf(o.B.Mup), FieldOf(g, cf.phi))
    [] name = "C08_Ghost"     -> C08_Field(cf.tr, g, MeshOf(cf.big), FieldOf(g, o.ghost), FieldOf(MeshOf(cf.big), o.B.ghost))
    [] name = "C08_Tvd"       -> \A k \in DOMAIN o.tvdnamed :
         \A cb \in Interior(MeshOf(cf.big)) :
            FieldOf(MeshOf(cf.big), o.B.tvdnamed[k])[cb] = FieldOf(g, o.tvdnamed[k])[Pre(cf.tr, g, cb)]
    [] name = "C08_Solve"     -> C08_Field(cf.tr, g, MeshOf(cf.big), FieldOf(g, o.r_solve), FieldOf(MeshOf(cf.big), o.B.r_solve))
    [] name = "X_CellLocations" ->
         \A a \in Axes(g) : \A c \in Interior(g) : FieldOf(g, o.celllocs[a])[c] = CellLocation(g, a)[c]
    [] name = "X_FaceLocations" ->
         \* faceLocations(m)[a] holds, for every face of axis a, all its coordinates
         \A a \in Axes(g) : \A b \in Axes(g) : \A f \in FaceCells(g, a) :
            FAt(o.facelocs[a][b], a, f) = (IF b = a THEN Face(g, a, f[a]) ELSE Centre(g, b, f[b]))
    [] name = "X_GradFixedBC" -> FaceFieldOf(g, o.gradfixed) = GradFixedBC(g, FieldOf(g, cf.phi))
    [] name = "X_FaceCtorScalar" -> \A id \in FaceIds(g) : FaceFieldOf(g, o.facector_scalar)[id] = cf.const
    [] name = "X_FaceCtorTuple" -> \A id \in FaceIds(g) : FaceFieldOf(g, o.facector_tuple)[id] = cf.lin_beta[id[1]]
    [] name = "X_Utility" ->
         \A k \in 1..Len(o.utility) :
            LET u == o.utility[k] IN u.abc = Utility(u.method, u.x, u.y, u.z, u.rev)
    [] name = "X_Integral" -> o.integral = DomainIntegral(g, V, FieldOf(g, cf.phi))
    [] name = "X_BuilderForms" -> \A k \in DOMAIN o.builderforms : o.builderforms[k]
    [] name = "X_MeshIndex" -> MeshIndex(g, o.meshindex.nums, o.meshindex.corners, o.meshindex.edges)
    [] name = "C04_DiffInterior" -> InteriorRowsOnly(g, MatOf(o.Mdiff))
    [] name = "C04_ConvInterior" -> InteriorRowsOnly(g, MatOf(o.Mconv))
    [] name = "C04_UpInterior"   -> InteriorRowsOnly(g, MatOf(o.Mup))

\* diagnosis for finding signatures: at which stencil offsets (column - row) do two matrices differ
DiffOffsets(M1, M2) ==
  {[a \in 1..Len(p[1]) |-> p[2][a] - p[1][a]] :
      p \in {q \in (DOMAIN M1) \cup (DOMAIN M2) : MGet(M1, q[1], q[2]) # MGet(M2, q[1], q[2])}}
Detail(e, name) ==
  LET o == e.obs IN
  CASE name = "C05_Diffusion" -> DiffOffsets(MatOf(o.Mdiff), MatOf(o.chain_diff))
    [] name = "C05_Central"   -> DiffOffsets(MatOf(o.Mconv), MatOf(o.chain_conv))
    [] name = "C05_Upwind"    -> DiffOffsets(MatOf(o.Mup), MatOf(o.chain_up))
    [] name = "C05_UpwindAlt" -> DiffOffsets(MatOf(o.Mupalt), MatOf(o.chain_upalt))
    [] OTHER -> {}

\* one clause: <<holds, overflowed>> - register 7 tells whether the exact arithmetic left the
\* 32-bit range while the clause was evaluated (then a FALSE is "undecided", not a verdict)
Eval(e, n) == IF TLCSet(7, FALSE) /\ Holds(e, n) THEN <<TRUE, TLCGet(7)>> ELSE <<FALSE, TLCGet(7)>>
EvalC(e, n) == IF TLCSet(7, FALSE) /\ Conforms(e, n) THEN <<TRUE, TLCGet(7)>> ELSE <<FALSE, TLCGet(7)>>

Verdict(k) ==
  LET e == Trace[k]
      res == [n \in ToSet(e.wanted) |-> Eval(e, n)]
      failing == {n \in DOMAIN res : ~res[n][1] /\ ~res[n][2]}
      resC == [n \in ToSet(e.conform) |-> EvalC(e, n)]
  IN  [ep |-> e.id,
       failing |-> failing,
       undecided |-> {n \in DOMAIN res : ~res[n][1] /\ res[n][2]},
       detail |-> [n \in failing |-> Detail(e, n)],
       nonconf |-> {n \in DOMAIN resC : ~resC[n][1] /\ ~resC[n][2]}]

Init == i = 0 /\ TLCSet(7, FALSE)
Next == /\ i < Len(Trace)
        /\ i' = i + 1
        /\ PrintT("@@ " \o ToJson(Verdict(i')))
Spec == Init /\ [][Next]_i
TraceAccepted == TLCGet("stats").diameter = Len(Trace) + 1
=============================================================================
