------------------------------ MODULE Rational ------------------------------
(***************************************************************************)
(* Exact rational arithmetic for TLC.  A rational is a pair <<n, d>> of    *)
(* integers with d > 0 and gcd(|n|, d) = 1 (canonical form, so that `='    *)
(* on pairs is equality of numbers).  TLC's integers are 32 bit and every  *)
(* overflow raises a TLC error, which the harness treats as a machinery    *)
(* failure (never as a pass): inputs of all models are chosen so that      *)
(* numerators and denominators stay far below 2^31.                        *)
(***************************************************************************)
EXTENDS Integers, Sequences, FiniteSets, Folds, TLC

RECURSIVE GCD(_, _)
GCD(a, b) == IF b = 0 THEN a ELSE GCD(b, a % b)

IAbs(x) == IF x < 0 THEN -x ELSE x

\* canonical form of the fraction n/d, d # 0
Norm(n, d) ==
  IF n = 0 THEN <<0, 1>>
  ELSE LET g == GCD(IAbs(n), IAbs(d))
           s == IF d < 0 THEN -1 ELSE 1
       IN  <<s * (n \div g), s * (d \div g)>>

R(n)       == <<n, 1>>                 \* integer -> rational
RZero      == <<0, 1>>
ROne       == <<1, 1>>
RHalf      == <<1, 2>>
IsRat(q)   == /\ q \in Int \X Int
              /\ q[2] > 0
              /\ (q[1] = 0 => q[2] = 1)
              /\ (q[1] # 0 => GCD(IAbs(q[1]), q[2]) = 1)

\* NaR ("not a rational", the pair <<0, 0>>) plays the role of NaN: an observation that could
\* not be lifted, or an intermediate result that would leave TLC's 32-bit integers.  It
\* propagates through the arithmetic, is unequal to every rational, and every comparison
\* with it is FALSE - so no predicate can be satisfied by accident and TLC never aborts
\* with an overflow error.
NaR        == <<0, 0>>
\* a second non-number, <<1, 0>>: "exact value unknown" - a finite observation that could not be
\* lifted to a small rational, or an intermediate result that leaves the 32-bit range.  Using it
\* in arithmetic raises TLC register 7, so that a trace spec can report the clause as
\* "undecided" instead of giving a verdict; like NaR it is unequal to every rational.
Unknown    == <<1, 0>>
IsNaN(a)   == a = NaR
Overflow   == IF TLCSet(7, TRUE) THEN Unknown ELSE Unknown
\* result of an operation one of whose operands is not a number
Bad(a, b)  == IF a = NaR \/ b = NaR THEN NaR ELSE Overflow
IsNaR(a)   == a[2] = 0
MaxInt     == 2147483647
MulOK(x, y) == x = 0 \/ y = 0 \/ IAbs(x) <= MaxInt \div IAbs(y)
AddOK(x, y) == IF x >= 0 /\ y >= 0 THEN x <= MaxInt - y
               ELSE IF x < 0 /\ y < 0 THEN x >= (-MaxInt) - y ELSE TRUE

RNeg(a)    == IF IsNaR(a) THEN a ELSE <<-a[1], a[2]>>
\* cross-cancelling keeps intermediate products small
RAdd(a, b) == IF IsNaR(a) \/ IsNaR(b) THEN Bad(a, b)
              ELSE IF a[1] = 0 THEN b ELSE IF b[1] = 0 THEN a ELSE
              LET g == GCD(a[2], b[2])
                  bd == b[2] \div g
                  ad == a[2] \div g
              IN  IF MulOK(a[1], bd) /\ MulOK(b[1], ad) /\ MulOK(a[2], bd)
                     /\ AddOK(a[1] * bd, b[1] * ad)
                  THEN Norm(a[1] * bd + b[1] * ad, a[2] * bd) ELSE Overflow
RSub(a, b) == RAdd(a, RNeg(b))
RMul(a, b) == IF IsNaR(a) \/ IsNaR(b) THEN Bad(a, b)
              ELSE IF a[1] = 0 \/ b[1] = 0 THEN RZero ELSE
              LET g1 == GCD(IAbs(a[1]), b[2])
                  g2 == GCD(IAbs(b[1]), a[2])
                  n1 == a[1] \div g1   n2 == b[1] \div g2
                  d1 == a[2] \div g2   d2 == b[2] \div g1
              IN  IF MulOK(n1, n2) /\ MulOK(d1, d2) THEN <<n1 * n2, d1 * d2>> ELSE Overflow
RInv(a)    == IF IsNaR(a) THEN Bad(a, a)
              ELSE IF a[1] > 0 THEN <<a[2], a[1]>> ELSE IF a[1] < 0 THEN <<-a[2], -a[1]>> ELSE NaR
RDiv(a, b) == RMul(a, RInv(b))
RSq(a)     == RMul(a, a)
RCube(a)   == RMul(a, RMul(a, a))

RSign(a)   == IF a[1] > 0 THEN 1 ELSE IF a[1] < 0 THEN -1 ELSE 0
RIsZero(a) == a[1] = 0 /\ a[2] # 0
RPos(a)    == ~IsNaR(a) /\ a[1] > 0
RNegv(a)   == ~IsNaR(a) /\ a[1] < 0
RLt(a, b)  == LET d == RSub(b, a) IN ~IsNaR(d) /\ d[1] > 0
RLe(a, b)  == LET d == RSub(b, a) IN ~IsNaR(d) /\ d[1] >= 0
RGt(a, b)  == RLt(b, a)
RGe(a, b)  == RLe(b, a)
RMin(a, b) == IF IsNaR(a) \/ IsNaR(b) THEN Bad(a, b) ELSE IF RLe(a, b) THEN a ELSE b
RMax(a, b) == IF IsNaR(a) \/ IsNaR(b) THEN Bad(a, b) ELSE IF RLe(a, b) THEN b ELSE a
RAbs(a)    == IF IsNaR(a) THEN a ELSE <<IAbs(a[1]), a[2]>>

RECURSIVE RPow(_, _)
RPow(a, k) == IF k = 0 THEN ROne ELSE RMul(a, RPow(a, k - 1))   \* k \in Nat

\* sum / min / max over a sequence of rationals
RECURSIVE RSumSeq(_)
RSumSeq(s) == IF s = <<>> THEN RZero ELSE RAdd(Head(s), RSumSeq(Tail(s)))
RECURSIVE RMinSeq(_)
RMinSeq(s) == IF Len(s) = 1 THEN s[1] ELSE RMin(Head(s), RMinSeq(Tail(s)))
RECURSIVE RMaxSeq(_)
RMaxSeq(s) == IF Len(s) = 1 THEN s[1] ELSE RMax(Head(s), RMaxSeq(Tail(s)))

\* sum of f(x) over a finite set S
RSumSet(S, f(_)) ==
  MapThenFoldSet(LAMBDA a, b : RAdd(a, b), RZero, f, LAMBDA T : CHOOSE y \in T : TRUE, S)

\* rational from a JSON pair [n, d] (sequence of two integers)
RFromSeq(s) == Norm(s[1], s[2])
=============================================================================
