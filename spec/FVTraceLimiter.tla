--------------------------- MODULE FVTraceLimiter ---------------------------
(***************************************************************************)
(* Trace validation for the flux limiters (C13): one episode per limiter   *)
(* name with the values fluxLimiter(name) returned on the rational grid    *)
(* (as 0-D, 1-D, 2-D and 3-D arrays) and at +-10^k.  Every clause of C13   *)
(* is evaluated on the observed values; the verdict lists, per failing     *)
(* clause, how many grid points fail and the first three of them.          *)
(***************************************************************************)
EXTENDS FVLimiters, Json, TLC, IOUtils, SequencesExt, FiniteSetsExt

Trace == JsonDeserialize(IOEnv.TRACE_FILE).episodes
VARIABLE i

FirstFew(S) == LET s == SetToSortSeq(S, <) IN SubSeq(s, 1, IF Len(s) < 3 THEN Len(s) ELSE 3)

Verdict(k) ==
  LET e == Trace[k]
      n == e.name
      G == e.grid
      I == 1..Len(G)
      o == e.obs["0d"]
      bad == [c \in {"C13_Finite", "C13_Formula", "C13_TVDBound", "C13_ClipZero", "C13_One",
                     "C13_Elementwise", "C13_Huge"} |->
        CASE c = "C13_Finite"   -> {j \in I : ~e.finite[j]}
          [] c = "C13_Formula"  -> {j \in I : e.finite[j] /\ o[j] # Psi(n, G[j])}
          [] c = "C13_TVDBound" -> {j \in I : ~IsNaR(o[j]) /\ ~TVDBound(G[j], o[j])}
          [] c = "C13_ClipZero" -> {j \in I : ~IsNaR(o[j]) /\ ~ClipZero(n, G[j], o[j])}
          [] c = "C13_One"      -> {j \in I : G[j] = ROne /\ o[j] # ROne}
          [] c = "C13_Elementwise" ->
               {j \in I : \E s \in {"1d", "2d", "3d"} : e.obs[s][j] # o[j]}
          [] c = "C13_Huge"     ->
               {j \in 1..Len(e.huge) :
                  LET h == e.huge[j]
                      b == HiLo(n, h.sign > 0)
                  IN  ~h.finite \/ h.fp < b[1] \/ h.fp > b[2]}]
      failing == {c \in DOMAIN bad : bad[c] # {}}
  IN  [ep |-> e.id, name |-> n, failing |-> failing,
       count |-> [c \in failing |-> Cardinality(bad[c])],
       first |-> [c \in failing |-> FirstFew(bad[c])]]

Init == i = 0
Next == /\ i < Len(Trace)
        /\ i' = i + 1
        /\ PrintT("@@ " \o ToJson(Verdict(i')))
Spec == Init /\ [][Next]_i
TraceAccepted == TLCGet("stats").diameter = Len(Trace) + 1
=============================================================================
