SPECIFICATION Spec
POSTCONDITION TraceAccepted
