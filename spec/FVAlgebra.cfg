SPECIFICATION Spec
INVARIANT Commutes
INVARIANT ReflectedAgree
INVARIANT NegAbs
