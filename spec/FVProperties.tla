---------------------------- MODULE FVProperties ----------------------------
(***************************************************************************)
(* The listed properties as predicates over (configuration, outputs).      *)
(* The predicates never say where the outputs come from: FVDesign*         *)
(* evaluates them on the reference semantics, FVTrace* on values observed  *)
(* from the real code (lifted to exact rationals by the harness).          *)
(* An unliftable observation is the pair <<0,0>> (NaR); it is unequal to   *)
(* every rational.                                                         *)
(***************************************************************************)
EXTENDS FVGeometry

IsNaR(q) == q[2] = 0
\* 1-based position of interior cell c in the C-order flattening of the interior block
RECURSIVE IntIdxFrom(_, _, _)
IntIdxFrom(g, c, a) == IF a = 0 THEN 0 ELSE IntIdxFrom(g, c, a - 1) * NCells(g, a) + (c[a] - 1)
IntIdx(g, c) == IntIdxFrom(g, c, Dim(g.cls)) + 1

-----------------------------------------------------------------------------
(* C10 - grid geometry is exact.  o = observed (or reference) mesh record:  *)
(*   dims, cellsize, cellcenters, facecenters : per-axis sequences          *)
(*   volume : C-order sequence over interior cells, in units of pi^PiExp    *)
(*   labels : [prop -> [label -> axis number or 0]]                         *)
C10_Dims(g, o)    == o.dims = Dims(g)
C10_Faces(g, o)   == \A a \in 1..Dim(g.cls) : o.facecenters[a] = g.faces[a]
C10_Centres(g, o) == \A a \in 1..Dim(g.cls) : o.cellcenters[a] = CentresSeq(g, a)
C10_Sizes(g, o)   == \A a \in 1..Dim(g.cls) : o.cellsize[a] = SizesSeq(g, a)
C10_Volume(g, o)  == /\ Len(o.volume) = Cardinality(Interior(g))
                     /\ \A c \in Interior(g) : o.volume[IntIdx(g, c)] = VolGeom(g, c)
C10_VolPositive(g, o) == \A k \in 1..Len(o.volume) : RPos(o.volume[k])
C10_VolSum(g, o)  == /\ \A k \in 1..Len(o.volume) : ~IsNaR(o.volume[k])
                     /\ RSumSeq(o.volume) = DomainVolume(g)
C10_Labels(g, o)  == \A p \in DOMAIN o.labels : \A l \in AllLabels :
                        o.labels[p][l] = LabelAxis(g.cls, l)

C10_Clauses == {"C10_Dims", "C10_Faces", "C10_Centres", "C10_Sizes", "C10_Volume",
                "C10_VolPositive", "C10_VolSum", "C10_Labels"}
C10_Holds(name, g, o) ==
  CASE name = "C10_Dims" -> C10_Dims(g, o)
    [] name = "C10_Faces" -> C10_Faces(g, o)
    [] name = "C10_Centres" -> C10_Centres(g, o)
    [] name = "C10_Sizes" -> C10_Sizes(g, o)
    [] name = "C10_Volume" -> C10_Volume(g, o)
    [] name = "C10_VolPositive" -> C10_VolPositive(g, o)
    [] name = "C10_VolSum" -> C10_VolSum(g, o)
    [] name = "C10_Labels" -> C10_Labels(g, o)
C10_Failing(g, o) == {n \in C10_Clauses : ~C10_Holds(n, g, o)}

\* the reference mesh record (what the documentation promises)
RefMesh(g) ==
  [dims        |-> Dims(g),
   facecenters |-> g.faces,
   cellcenters |-> [a \in 1..Dim(g.cls) |-> CentresSeq(g, a)],
   cellsize    |-> [a \in 1..Dim(g.cls) |-> SizesSeq(g, a)],
   volume      |-> LET n == Cardinality(Interior(g))
                   IN  [k \in 1..n |-> VolGeom(g, CHOOSE c \in Interior(g) : IntIdx(g, c) = k)],
   labels      |-> [p \in {"cellsize", "cellcenters", "facecenters"} |->
                       [l \in AllLabels |-> LabelAxis(g.cls, l)]]]
=============================================================================
