---------------------------- MODULE FVProperties ----------------------------
(***************************************************************************)
(* The listed properties as predicates over (configuration, outputs).      *)
(* The predicates never say where the outputs come from: FVDesign*         *)
(* evaluates them on the reference semantics, FVTrace* on values observed  *)
(* from the real code (lifted to exact rationals by the harness).          *)
(* An unliftable observation is the pair <<0,0>> (NaR); it is unequal to   *)
(* every rational.                                                         *)
(***************************************************************************)
EXTENDS FVBoundary

\* 1-based position of interior cell c in the C-order flattening of the interior block
RECURSIVE IntIdxFrom(_, _, _)
IntIdxFrom(g, c, a) == IF a = 0 THEN 0 ELSE IntIdxFrom(g, c, a - 1) * NCells(g, a) + (c[a] - 1)
IntIdx(g, c) == IntIdxFrom(g, c, Dim(g.cls)) + 1

-----------------------------------------------------------------------------
(* C10 - grid geometry is exact.  o = observed (or reference) mesh record:  *)
(*   dims, cellsize, cellcenters, facecenters : per-axis sequences          *)
(*   volume : C-order sequence over interior cells, in units of pi^PiExp    *)
(*   labels : [prop -> [label -> axis number or 0]]                         *)
C10_Dims(g, o)    == o.dims = Dims(g)
C10_Faces(g, o)   == \A a \in 1..Dim(g.cls) : o.facecenters[a] = g.faces[a]
C10_Centres(g, o) == \A a \in 1..Dim(g.cls) : o.cellcenters[a] = CentresSeq(g, a)
C10_Sizes(g, o)   == \A a \in 1..Dim(g.cls) : o.cellsize[a] = SizesSeq(g, a)
C10_Volume(g, o)  == /\ Len(o.volume) = Cardinality(Interior(g))
                     /\ \A c \in Interior(g) : o.volume[IntIdx(g, c)] = VolGeom(g, c)
C10_VolPositive(g, o) == \A k \in 1..Len(o.volume) : RPos(o.volume[k])
C10_VolSum(g, o)  == /\ \A k \in 1..Len(o.volume) : ~IsNaR(o.volume[k])
                     /\ RSumSeq(o.volume) = DomainVolume(g)
C10_Labels(g, o)  == \A p \in DOMAIN o.labels : \A l \in AllLabels :
                        o.labels[p][l] = LabelAxis(g.cls, l)
\* cellvolume is a computed, read-only quantity: what a caller does to the array it was handed changes neither a
\* later answer nor the geometry of the mesh
C10_Stable(g, o)  == o.volume_again = o.volume /\ o.cellsize_again = o.cellsize

C10_Clauses == {"C10_Dims", "C10_Faces", "C10_Centres", "C10_Sizes", "C10_Volume",
                "C10_VolPositive", "C10_VolSum", "C10_Labels", "C10_Stable"}
C10_Holds(name, g, o) ==
  CASE name = "C10_Dims" -> C10_Dims(g, o)
    [] name = "C10_Faces" -> C10_Faces(g, o)
    [] name = "C10_Centres" -> C10_Centres(g, o)
    [] name = "C10_Sizes" -> C10_Sizes(g, o)
    [] name = "C10_Volume" -> C10_Volume(g, o)
    [] name = "C10_VolPositive" -> C10_VolPositive(g, o)
    [] name = "C10_VolSum" -> C10_VolSum(g, o)
    [] name = "C10_Labels" -> C10_Labels(g, o)
    [] name = "C10_Stable" -> C10_Stable(g, o)
C10_Failing(g, o) == {n \in C10_Clauses : ~C10_Holds(n, g, o)}

-----------------------------------------------------------------------------
(* generic helpers over sparse matrices / vectors (module FVOperators)      *)
UniformAxis(g, a) == \A i \in 0..NCells(g, a) : Size(g, a, i) = Size(g, a, i + 1)
RowSum(M, r) == RSumSet(MRow(M, r), LAMBDA p : M[p])
InteriorRowsOnly(g, M) == MRows(M) \subseteq Interior(g)
VecInteriorOnly(g, v) == \A c \in AllCells(g) : c \notin Interior(g) => RIsZero(v[c])
\* sum over interior rows of  V[row] * M[row, col]
WeightedColSum(V, M, c) == RSumSet(MCol(M, c), LAMBDA p : RMul(V[p[1]], M[p]))
WeightedSum(g, V, v) == RSumSet(Interior(g), LAMBDA c : RMul(V[c], v[c]))
ConstField(g, q) == [c \in AllCells(g) |-> q]

-----------------------------------------------------------------------------
(* C05 - implicit matrix terms and the explicit gradient/mean/divergence chain agree.
   Both arguments are matrices: the builder's matrix and the matrix whose column c is the
   explicit chain applied to the unit field e_c (ghost cells included).                  *)
C05_Agree(g, M, chain) == InteriorRowsOnly(g, M) /\ M = chain

(* C06 - uniform fields stay uniform *)
C06_DiffConst(g, Mdiff) == \A P \in Interior(g) : RIsZero(RowSum(Mdiff, P))
C06_AdvConst(g, M, divu) == \A P \in Interior(g) : RowSum(M, P) = divu[P]
C06_SourceDiag(g, Msrc, beta) ==
  /\ \A p \in DOMAIN Msrc : p[1] = p[2] /\ p[1] \in Interior(g)
  /\ \A P \in Interior(g) : MGet(Msrc, P, P) = beta[P]
C06_SourceVec(g, Rsrc, gamma) ==
  \A c \in AllCells(g) : Rsrc[c] = (IF c \in Interior(g) THEN gamma[c] ELSE RZero)

(* C01 - closed systems conserve the domain integral: with zero coefficient on every
   domain-boundary face the V-weighted column sums of a flux-form matrix vanish, for
   every column (interior and ghost cells alike); V = the volumes domainIntegral uses   *)
C01_ClosedMatrix(g, V, M) == \A c \in AllCells(g) : RIsZero(WeightedColSum(V, M, c))
C01_ClosedVector(g, V, v) == RIsZero(WeightedSum(g, V, v))

-----------------------------------------------------------------------------
(* C03 - reported boundary values satisfy the configured BCs *)
C03_Robin(g, bc, full) ==
  \A s \in SideNames(g) : ~PeriodicAxis(g, bc, SideAxisOf(s)) =>
     \A P \in Adjacent(g, s) : RIsZero(RobinResidual(g, bc, s, P, full))
C03_Periodic(g, bc, full) ==
  \A a \in Axes(g) : PeriodicAxis(g, bc, a) =>
     \A P \in Adjacent(g, LoSide(a)) :
        /\ full[Shift(P, a, -1)] = full[[P EXCEPT ![a] = NCells(g, a)]]
        /\ full[[P EXCEPT ![a] = NCells(g, a) + 1]] = full[P]
C03_InteriorKept(g, phi, full) == \A c \in Interior(g) : full[c] = phi[c]
UniformEnds(g, a) == Size(g, a, 0) = Size(g, a, NCells(g, a) + 1)
\* the solver's boundary rows, applied to the reported full field, are satisfied
C03_RowsSatisfied(g, bc, Mbc, Rbc, full) ==
  \A c \in AllCells(g) : GhostDegree(g, c) = 1 =>
     LET a == CHOOSE x \in Axes(g) : c[x] = 0 \/ c[x] = NCells(g, x) + 1
     IN  (PeriodicAxis(g, bc, a) => UniformEnds(g, a)) => MApplyRow(Mbc, full, c) = Rbc[c]
\* ... and each non-periodic boundary row is a non-zero multiple of the Robin relation
C03_RowsEncodeRobin(g, bc, Mbc, Rbc) ==
  \A s \in SideNames(g) : ~PeriodicAxis(g, bc, SideAxisOf(s)) =>
     \A P \in Adjacent(g, s) :
        LET gh == GhostOf(g, s, P)
            cg == IF IsHigh(s) THEN CoefHi(g, bc, s, P) ELSE CoefLo(g, bc, s, P)
            cp == IF IsHigh(s) THEN CoefLo(g, bc, s, P) ELSE CoefHi(g, bc, s, P)
            lam == RDiv(MGet(Mbc, gh, gh), cg)
        IN  /\ ~RIsZero(lam)
            /\ MGet(Mbc, gh, P) = RMul(lam, cp)
            /\ Rbc[gh] = RMul(lam, bc[s].c[P])
            /\ {p[2] : p \in MRow(Mbc, gh)} \subseteq {gh, P}
\* boundary rows never touch interior equations; terms never touch boundary rows
C03_RowsOnGhostOnly(g, Mbc, Rbc) ==
  /\ MRows(Mbc) \cap Interior(g) = {}
  /\ \A c \in Interior(g) : RIsZero(Rbc[c])
\* multiplying (a, b, c) by lam # 0: same ghost values, rows and RHS scaled together
C03_ScaleInvariant(g, bc, lam, full, fullS, Mbc, Rbc, MbcS, RbcS) ==
  /\ fullS = full
  /\ \A c \in AllCells(g) : GhostDegree(g, c) = 1 =>
        LET a == CHOOSE x \in Axes(g) : c[x] = 0 \/ c[x] = NCells(g, x) + 1
        IN  ~PeriodicAxis(g, bc, a) =>
              /\ RbcS[c] = RMul(lam, Rbc[c])
              /\ \A q \in AllCells(g) : MGet(MbcS, c, q) = RMul(lam, MGet(Mbc, c, q))

\* plotprofile(): interior values as stored, boundary entries = face averages
C03_PlotProfile(g, full, prof) ==
  \A c \in AllCells(g) :
     CASE GhostDegree(g, c) = 0 -> prof[c] = full[c]
       [] GhostDegree(g, c) = 1 ->
            LET a == CHOOSE x \in Axes(g) : c[x] = 0 \/ c[x] = NCells(g, x) + 1
                P == Shift(c, a, IF c[a] = 0 THEN 1 ELSE -1)
            IN  prof[c] = RMul(RHalf, RAdd(full[c], full[P]))
       [] OTHER -> TRUE

\* open boundaries: the change of the domain integral equals the net flux through the boundary
\* faces:  sum_P V_P (M phi)_P  =  sum over boundary faces of  +-area * flux(phi),
\* flux = the explicit face flux computed by the code's own gradient / mean functions
BoundaryFluxSum(g, flux) ==
  RSumSet({id \in FaceIds(g) : IsBoundaryFace(g, id[1], id[2])},
          LAMBDA id :
            LET a == id[1]  f == id[2]
                c == [f EXCEPT ![a] = IF f[a] = 0 THEN 1 ELSE f[a]]       \* adjacent interior cell
                area == FaceAreaGeo(g, a, c, f[a])
            IN  RMul(IF f[a] = 0 THEN RNeg(area) ELSE area, flux[id]))
C01_OpenMatrix(g, V, M, phi, flux) ==
  RSumSet(Interior(g), LAMBDA P : RMul(V[P], MApplyRow(M, phi, P))) = BoundaryFluxSum(g, flux)

\* midpoint-rule cell volume of SphericalGrid3D (the weight its operators divide by)
MidVolume(g) == [c \in AllCells(g) |->
   IF c \in Interior(g)
   THEN RMul(RMul(RMul(RSq(Rp(g, c)), SinM(g, ThP(g, c))), Size(g, 1, c[1])),
             RMul(Size(g, 2, c[2]), Size(g, 3, c[3])))
   ELSE RZero]
\* closed periodic system: fold every ghost column onto its periodic image first
C01_ClosedPeriodic(g, bc, V, M) ==
  LET img(c) == [a \in 1..Len(c) |->
                   IF PeriodicAxis(g, bc, a) /\ c[a] = 0 THEN NCells(g, a)
                   ELSE IF PeriodicAxis(g, bc, a) /\ c[a] = NCells(g, a) + 1 THEN 1 ELSE c[a]]
  IN  \A c \in Interior(g) :
        RIsZero(RSumSet({q \in AllCells(g) : img(q) = c /\ GhostDegree(g, q) <= 1},
                        LAMBDA q : WeightedColSum(V, M, q)))

-----------------------------------------------------------------------------
(* C04 - solvePDE solves exactly the system its term list and BCs define, in place.
   D2: the configuration fixes the post-state xstar; the data were derived from it.     *)
Live(g) == {c \in AllCells(g) : GhostDegree(g, c) <= 1}
C04_Solves(g, xstar, r) == \A c \in Live(g) : r[c] = xstar[c]
C04_SameInterior(g, r1, r2) == \A c \in Interior(g) : r1[c] = r2[c]
C04_Linear(g, r1, r2, rsum) == \A c \in Live(g) : rsum[c] = RAdd(r1[c], r2[c])
\* the assembled system: boundary rows are exactly the BC rows, interior rows exactly the terms
C04_Assembly(g, Mhand, Rhand, Mbc, Rbc, A, alpha, dt, old, gamma) ==
  /\ \A p \in (DOMAIN Mhand) \cup (DOMAIN Mbc) :
        p[1] \notin Interior(g) => MGet(Mhand, p[1], p[2]) = MGet(Mbc, p[1], p[2])
  /\ \A c \in AllCells(g) : c \notin Interior(g) => Rhand[c] = Rbc[c]
  /\ \A p \in (DOMAIN Mhand) \cup (DOMAIN A) :
        p[1] \in Interior(g) =>
           MGet(Mhand, p[1], p[2]) =
              RAdd(MGet(A, p[1], p[2]), IF p[1] = p[2] THEN RDiv(alpha[p[1]], dt) ELSE RZero)
  /\ \A c \in Interior(g) : Rhand[c] = RAdd(gamma[c], RDiv(RMul(alpha[c], old[c]), dt))

(* C12 - time stepping *)
C12_Residual(g, alpha, dt, old, A, gamma, r) ==
  \A P \in Interior(g) :
     RAdd(RDiv(RMul(alpha[P], RSub(r[P], old[P])), dt), MApplyRow(A, r, P)) = gamma[P]
C12_ExplicitStep(g, dt, inp, rhs, r) ==
  \A P \in Interior(g) : r[P] = RAdd(inp[P], RMul(dt, rhs[P]))

-----------------------------------------------------------------------------
(* C17 - dimensional homogeneity.  Physical dimension of every output as exponents
   <<length, time, field>>; rescaling the inputs by (L, T, K) according to their dimensions
   must rescale each output by exactly L^l T^t K^k.                                        *)
VolumeLengthPower(cls) ==
  CASE cls = "Grid1D" -> 1 [] cls = "CylindricalGrid1D" -> 2 [] cls = "SphericalGrid1D" -> 3
    [] cls = "Grid2D" -> 2 [] cls = "CylindricalGrid2D" -> 3 [] cls = "PolarGrid2D" -> 2
    [] OTHER -> 3
OutputDim(cls, name) ==
  CASE name \in {"Mdiff", "Mconv", "Mup", "Mupalt", "Msrc", "Mtrans", "divu"} -> <<0, -1, 0>>
    [] name \in {"Rsrc", "Rtrans", "tvd"} -> <<0, -1, 1>>
    [] name = "Mbc" -> <<0, 0, 0>>
    [] name \in {"Rbc", "ghost", "linmean", "arithmean", "harmmean", "upmean", "solution"} -> <<0, 0, 1>>
    [] name = "volume" -> <<VolumeLengthPower(cls), 0, 0>>
\* integer power with negative exponents
RPowZ(a, k) == IF k >= 0 THEN RPow(a, k) ELSE RInv(RPow(a, -k))
ScaleFactor(dim, L, T, K) == RMul(RMul(RPowZ(L, dim[1]), RPowZ(T, dim[2])), RPowZ(K, dim[3]))
C17_MatScaled(M, Ms, f) ==
  /\ DOMAIN M = DOMAIN Ms
  /\ \A p \in DOMAIN M : Ms[p] = RMul(f, M[p])
C17_VecScaled(v, vs, f) == \A c \in DOMAIN v : vs[c] = RMul(f, v[c])
\* the gradient has length dimension -1 along length-like axes and 0 along angles
C17_GradScaled(g, gr, grs, L, K) ==
  \A id \in DOMAIN gr :
     grs[id] = RMul(RMul(K, IF IsAngular(g.cls, id[1]) THEN RInv(L) ELSE RInv(L)), gr[id])
\* linearity in the coefficient field:  Op(lam*C1 + mu*C2) = lam*Op(C1) + mu*Op(C2)
C17_MatLinear(M1, M2, M12, lam, mu) == M12 = MAdd(MScale(lam, M1), MScale(mu, M2))

-----------------------------------------------------------------------------
(* TVD identities (C05), totality (C13) *)
\* interior cells none of whose faces is the first or last face of its axis
AwayFromBoundary(g) == {c \in Interior(g) : \A a \in Axes(g) : c[a] > 1 /\ c[a] < NCells(g, a)}
\* unit limiter on uniform grids: upwind operator minus the correction is the central operator
C05_TvdUnit(g, Mup, Mconv, tvd1, phi) ==
  (\A a \in Axes(g) : UniformAxis(g, a)) =>
     \A P \in Interior(g) :
        RSub(MApplyRow(Mup, phi, P), tvd1[P]) = MApplyRow(Mconv, phi, P)
VecZero(g, v) == \A c \in AllCells(g) : RIsZero(v[c])
VecFinite(g, v) == \A c \in AllCells(g) : ~IsNaN(v[c])

-----------------------------------------------------------------------------
(* C11 - cell-to-face means.  F is a face field computed from the cell field phi. *)
FaceLo(phi, id) == phi[LoCell(id[1], id[2])]
FaceHi(phi, id) == phi[HiCell(id[1], id[2])]
C11_Between(g, phi, F) ==
  \A id \in FaceIds(g) :
     /\ RLe(RMin(FaceLo(phi, id), FaceHi(phi, id)), F[id])
     /\ RLe(F[id], RMax(FaceLo(phi, id), FaceHi(phi, id)))
C11_Const(g, c, F) == \A id \in FaceIds(g) : F[id] = c
C11_Ordering(g, H, G, A) == \A id \in FaceIds(g) : RLe(H[id], G[id]) /\ RLe(G[id], A[id])
\* geometric mean through its defining relation  G^(w1+w2) = a^w1 * b^w2  (integer cell widths)
C11_GeoRelation(g, phi, G) ==
  \A id \in FaceIds(g) :
     LET a == id[1]  f == id[2]
         w1 == Size(g, a, f[a])  w2 == Size(g, a, f[a] + 1)
     IN  /\ w1[2] = 1 /\ w2[2] = 1
         /\ RPow(G[id], w1[1] + w2[1]) = RMul(RPow(FaceLo(phi, id), w1[1]), RPow(FaceHi(phi, id), w2[1]))
\* linear field  alpha + sum_a beta_a * x_a  sampled at cell centres (ghost centres mirrored)
CentreExt(g, a, i) == IF i = 0 THEN RSub(Face(g, a, 0), RMul(RHalf, Size(g, a, 0)))
                      ELSE IF i = NCells(g, a) + 1
                           THEN RAdd(Face(g, a, NCells(g, a)), RMul(RHalf, Size(g, a, i)))
                           ELSE Centre(g, a, i)
LinearField(g, alpha, beta) ==
  [c \in AllCells(g) |-> RAdd(alpha, RSumSet(Axes(g), LAMBDA a : RMul(beta[a], CentreExt(g, a, c[a]))))]
C11_LinearExact(g, alpha, beta, F) ==
  \A id \in FaceIds(g) :
     LET a == id[1]  f == id[2]
         xf(b) == IF b = a THEN Face(g, a, f[a]) ELSE Centre(g, b, f[b])
     IN  F[id] = RAdd(alpha, RSumSet(Axes(g), LAMBDA b : RMul(beta[b], xf(b))))

-----------------------------------------------------------------------------
(* C07 - discrete maximum principle.  With a discretely divergence-free velocity the spatial
   operator  A = -Diffusion(D) + Upwind(u) + diag(beta), D >= 0, beta >= 0, has non-positive
   off-diagonal entries (ghost columns included), a non-negative diagonal, and the rows of
   -Diffusion + Upwind sum to zero; with the transient diagonal alpha/dt > 0 and ghost values
   that are either the interior neighbour (no flux), a periodic image, or 2c - neighbour
   (Dirichlet), every new cell value is a convex combination of old values, neighbours and
   Dirichlet data: no overshoot.                                                            *)
C07_SignStructure(g, Mdiff, Mup, Msrc) ==
  LET S == MSub(Mup, Mdiff)
      A == MAdd(S, Msrc)
  IN  \A P \in Interior(g) :
        /\ \A p \in MRow(A, P) : p[2] # P => RLe(A[p], RZero)
        /\ RGe(MGet(A, P, P), RZero)
        /\ RIsZero(RowSum(S, P))
\* direct observation (fixed point, 1e-6 units): new values within [lo, hi]
C07_Hull(steps) ==
  \A k \in 1..Len(steps) :
     /\ steps[k].finite
     /\ steps[k].mn >= steps[k].lo - 2
     /\ steps[k].mx <= steps[k].hi + 2

-----------------------------------------------------------------------------
(* C08 - redundant axes, axis relabelling, mirroring.  tr describes the symmetry map from the
   small grid gs to the big grid gb; Pre(tr, gs, cb) is the small cell a big cell comes from. *)
DropIdx(c, p) == [a \in 1..(Len(c) - 1) |-> IF a < p THEN c[a] ELSE c[a + 1]]
Pre(tr, gs, cb) ==
  CASE tr.kind = "extrude" -> DropIdx(cb, tr.pos)
    [] tr.kind = "permute" -> [j \in 1..Len(cb) |-> cb[CHOOSE a \in 1..Len(cb) : tr.perm[a] = j]]
    [] tr.kind = "mirror"  -> [cb EXCEPT ![tr.axis] = NCells(gs, tr.axis) + 1 - cb[tr.axis]]
    [] tr.kind = "shift"   ->      \* cyclic shift by tr.by cells along a periodic axis (ghost cells wrap)
         LET N == NCells(gs, tr.axis)
             i == cb[tr.axis]
             j == IF i = 0 THEN N ELSE IF i = N + 1 THEN 1 ELSE i
         IN  [cb EXCEPT ![tr.axis] = ((j - 1 - tr.by + 2 * N) % N) + 1]
EmbedField(tr, gs, gb, xs) == [cb \in AllCells(gb) |-> xs[Pre(tr, gs, cb)]]
\* the geometry of the big grid is the image of the small one
C08_Geometry(tr, gs, gb) ==
  CASE tr.kind = "extrude" ->
         \A a \in 1..Dim(gb.cls) : a # tr.pos => gb.faces[a] = gs.faces[IF a < tr.pos THEN a ELSE a - 1]
    [] tr.kind = "permute" -> \A a \in 1..Dim(gb.cls) : gb.faces[a] = gs.faces[tr.perm[a]]
    [] tr.kind = "shift"   -> gb.faces = gs.faces /\ UniformAxis(gs, tr.axis)
    [] tr.kind = "mirror"  ->
         \A a \in 1..Dim(gb.cls) :
            IF a # tr.axis THEN gb.faces[a] = gs.faces[a]
            ELSE \A i \in 1..Len(gs.faces[a]) :
                    gb.faces[a][i] = RSub(RAdd(Lo(gs, a), Hi(gs, a)), gs.faces[a][Len(gs.faces[a]) + 1 - i])
\* operators commute with the map:  M_big (E x) = E (M_small x)  on every interior cell
C08_Apply(tr, gs, gb, Ms, Mb, xs) ==
  LET Xb == EmbedField(tr, gs, gb, xs)
  IN  \A Pb \in Interior(gb) : MApplyRow(Mb, Xb, Pb) = MApplyRow(Ms, xs, Pre(tr, gs, Pb))
\* a field computed on the big grid is the image of the one computed on the small grid
C08_Field(tr, gs, gb, fs, fb) == \A cb \in Live(gb) : fb[cb] = fs[Pre(tr, gs, cb)]

-----------------------------------------------------------------------------
(* Extended coverage (behaviour behind the listed properties, not itself a listed property):
   location variables, the boundary-corrected gradient, FaceVariable constructor forms, the
   boundary utility methods and the domain integral.                                        *)
\* cellLocations(m): one cell field per axis holding the centre coordinate of that axis
CellLocation(g, a) == [c \in AllCells(g) |-> IF c \in Interior(g) THEN Centre(g, a, c[a]) ELSE RZero]
\* faceLocations(m): coordinate b of the face id (the face position along its own axis, the cell
\* centre along the others)
FaceLocation(g, b) == [id \in FaceIds(g) |->
                         IF id[1] = b THEN Face(g, b, id[2][b]) ELSE Centre(g, b, id[2][b])]
\* gradientTermFixedBC: the gradient with the two boundary-face values of every axis doubled
GradFixedBC(g, phi) == [id \in FaceIds(g) |->
                          IF IsBoundaryFace(g, id[1], id[2]) THEN RMul(R(2), Grad(g, phi)[id]) ELSE Grad(g, phi)[id]]
\* the utility methods of a boundary face: resulting (a, b, c)
Utility(method, x, y, z, rev) ==
  CASE method = "defaultNoFlux" -> <<ROne, RZero, RZero>>
    [] method = "fixedValue"    -> <<RZero, ROne, x>>
    [] method = "fixedGradient" -> <<y, RZero, RMul(y, x)>>            \* x gradient value, y scale
    [] method = "newtonCooling" -> LET h == IF rev THEN RNeg(y) ELSE y   \* x = k, y = h, z = T_ext
                                   IN  <<x, h, RMul(h, z)>>
DomainIntegral(g, V, phi) == WeightedSum(g, V, phi)
\* index structure of the mesh object: cell_numbers() is the C-order numbering of the (N+2)^d array;
\* `corners' / `edges' (2D: corners only) are the numbers of the inert cells the BC term pins
CornerNumbers(g) == {LinIdx(g, c) : c \in {x \in AllCells(g) : GhostDegree(g, x) = Dim(g.cls)}}
EdgeNumbers(g) == {LinIdx(g, c) : c \in {x \in AllCells(g) : GhostDegree(g, x) = 2}}
MeshIndex(g, nums, corners, edges) ==
  /\ \A k \in 1..Len(nums) : nums[k][2] = LinIdx(g, nums[k][1])
  /\ {nums[k][1] : k \in 1..Len(nums)} = AllCells(g)
  /\ Dim(g.cls) >= 2 => ({corners[k] : k \in 1..Len(corners)} = CornerNumbers(g) /\ Len(corners) = Cardinality(CornerNumbers(g)))
  /\ Dim(g.cls) = 3 => ({edges[k] : k \in 1..Len(edges)} = EdgeNumbers(g) /\ Len(edges) = Cardinality(EdgeNumbers(g)))

\* the reference mesh record (what the documentation promises)
RefMesh(g) ==
  [dims        |-> Dims(g),
   facecenters |-> g.faces,
   cellcenters |-> [a \in 1..Dim(g.cls) |-> CentresSeq(g, a)],
   cellsize    |-> [a \in 1..Dim(g.cls) |-> SizesSeq(g, a)],
   volume      |-> LET n == Cardinality(Interior(g))
                   IN  [k \in 1..n |-> VolGeom(g, CHOOSE c \in Interior(g) : IntIdx(g, c) = k)],
   labels      |-> [p \in {"cellsize", "cellcenters", "facecenters"} |->
                       [l \in AllLabels |-> LabelAxis(g.cls, l)]],
   \* the reference mesh is a value: asking again gives the same answer
   volume_again |-> LET n == Cardinality(Interior(g))
                    IN  [k \in 1..n |-> VolGeom(g, CHOOSE c \in Interior(g) : IntIdx(g, c) = k)],
   cellsize_again |-> [a \in 1..Dim(g.cls) |-> SizesSeq(g, a)]]
=============================================================================
