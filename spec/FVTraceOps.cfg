SPECIFICATION Spec
POSTCONDITION TraceAccepted
