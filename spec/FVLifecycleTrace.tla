-------------------------- MODULE FVLifecycleTrace --------------------------
(***************************************************************************)
(* Trace validation of the lifecycle layer (code -> spec).  The trace is   *)
(* the sequence of public calls recorded by the env-guarded hooks of the   *)
(* repository (depth-0 events, normalised by harness/record.py).  Each     *)
(* event is consumed by the corresponding action of FVLifecycle            *)
(* (IsEvent /\ bind logged arguments /\ SpecAction); a second step (`sync')*)
(* compares the scalars the code logged after the call (flag values,       *)
(* presence of the cache) with the spec state, records every difference    *)
(* in `mism' and adopts the logged values, so that the rest of the trace   *)
(* is still checked.  What each solve used is judged by C09_FreshAtUse on  *)
(* the spec's own bookkeeping of content versions; violations are          *)
(* collected in `viol' (with the line number) instead of stopping TLC, and *)
(* one total verdict is printed at the end.                                *)
(***************************************************************************)
EXTENDS FVLifecycle, IOUtils, SequencesExt

Trace == JsonDeserialize(IOEnv.TRACE_FILE).events

VARIABLES l,        \* number of events consumed
          phase,    \* "act" | "sync" | "done"
          mism,     \* set of [line, what]      differences between logged scalars and the spec state
          viol,     \* set of [line, clause, shared, manual]   property violations seen on the trace
          taint,    \* BC objects / variables whose flags were reset by hand since their last apply
          pre       \* what the spec expected of the event just consumed: [needs |-> entry check must fire]
tvars == <<l, phase, mism, viol, taint, pre>>

Ev == Trace[l + 1]
Is(name) == phase = "act" /\ l < Len(Trace) /\ Ev.ev = name
Consume == /\ l' = l + 1 /\ phase' = "sync" /\ UNCHANGED <<mism, viol>>
           /\ pre' = [needs |-> IF Ev.ev \in {"SolvePDE", "SolveExplicit"} /\ alive[Ev.v] THEN NeedsApply(Ev.v)
                                 ELSE FALSE]

\* a variable that comes with a BC object the recorder has never seen (deep copy made by an
\* operator, funceval, ...): adopt the object with the flags it was logged with
AdoptVar(v, b, dirty) ==
  /\ v \in FreeVars /\ b \in FreeBCs
  /\ InitVar(v, b, TRUE, FreshInt)
  /\ bcAlive' = [bcAlive EXCEPT ![b] = TRUE]
  /\ bcC' = [bcC EXCEPT ![b] = FreshBC]
  /\ bcDirty' = [bcDirty EXCEPT ![b] = dirty]
  /\ bcPer' = [bcPer EXCEPT ![b] = {}]
  /\ viewHot' = [viewHot EXCEPT ![b] = {}]
  /\ everShared' = [everShared EXCEPT ![b] = FALSE]
  /\ ghostFrom' = [ghostFrom EXCEPT ![v] = <<FreshInt, FreshBC>>]
  /\ cacheFrom' = [cacheFrom EXCEPT ![v] = FreshBC]
  /\ use' = NoUse
  /\ last' = [name |-> "AdoptVar", args |-> <<v, b>>]

\* is the spec action for this event enabled at all? (otherwise the event is skipped and reported)
Guard(e) ==
  CASE e.ev = "NewBC" -> e.b \in FreeBCs
    [] e.ev = "NewVar" ->
         IF e.kind = "shared" THEN e.v \in FreeVars /\ bcAlive[e.b]
         ELSE e.v \in FreeVars /\ e.b \in FreeBCs
    [] e.ev = "EditBC" -> bcAlive[e.b] /\ e.s \in Sides
    [] e.ev = "AssignValue" -> alive[e.v]
    [] e.ev = "SetFlag" ->
         IF e.kind = "value" THEN alive[e.v] ELSE bcAlive[e.b]
    [] e.ev \in {"ApplyBCs", "SolvePDE"} -> alive[e.v]
    [] e.ev = "UpdateValue" -> alive[e.v] /\ alive[e.w] /\ e.v # e.w
    [] e.ev = "Copy" -> alive[e.v] /\ e.w \in FreeVars /\ e.b \in FreeBCs
    [] e.ev = "SolveExplicit" -> alive[e.v] /\ e.r \in FreeVars
    [] e.ev = "SolveMatrix" -> e.r \in FreeVars /\ e.b \in FreeBCs
    [] e.ev \in {"Drop", "DropBC"} -> TRUE
    [] OTHER -> FALSE

TNewBC == Is("NewBC") /\ Guard(Ev) /\ NewBC(Ev.b) /\ Consume /\ UNCHANGED taint
TNewVar ==
  /\ Is("NewVar") /\ Guard(Ev)
  /\ CASE Ev.kind = "shared"  -> NewVar(Ev.v, Ev.b, Ev.pc)
       [] Ev.kind = "default" -> NewVarDefault(Ev.v, Ev.b)
       [] OTHER               -> AdoptVar(Ev.v, Ev.b, ToSet(Ev.obs.dirty))
  /\ Consume /\ UNCHANGED taint
TEditBC == Is("EditBC") /\ Guard(Ev) /\ EditBC(Ev.b, Ev.s, "coef") /\ Consume /\ UNCHANGED taint
TAssign == Is("AssignValue") /\ Guard(Ev) /\ AssignValue(Ev.v, "whole") /\ Consume /\ UNCHANGED taint
TSetFlag ==
  /\ Is("SetFlag") /\ Guard(Ev)
  /\ CASE Ev.kind = "value" -> SetValueFlag(Ev.v, Ev.value)
       [] Ev.kind = "bc"    -> ResetBCFlag(Ev.b)
       [] OTHER             -> SetFaceFlag(Ev.b, Ev.s, Ev.side_flag)
  /\ taint' = IF Ev.kind = "value" THEN (IF Ev.value THEN taint ELSE taint \cup {Ev.v})
              ELSE IF Ev.kind = "bc" \/ ~Ev.side_flag THEN taint \cup {Ev.b} ELSE taint
  /\ Consume
TApply == Is("ApplyBCs") /\ Guard(Ev) /\ ApplyBCs(Ev.v) /\ Consume
          /\ taint' = taint \ {Ev.v, bcOf[Ev.v]}
TUpdate == Is("UpdateValue") /\ Guard(Ev) /\ UpdateValue(Ev.v, Ev.w) /\ Consume /\ UNCHANGED taint
TCopy == Is("Copy") /\ Guard(Ev) /\ Copy(Ev.v, Ev.w, Ev.b) /\ Consume
         /\ taint' = IF bcOf[Ev.v] \in taint THEN taint \cup {Ev.b} ELSE taint
TSolve == Is("SolvePDE") /\ Guard(Ev) /\ SolvePDEWith(Ev.v, Ev.entry) /\ Consume /\ UNCHANGED taint
TExplicit == Is("SolveExplicit") /\ Guard(Ev) /\ SolveExplicitWith(Ev.v, Ev.r, Ev.entry) /\ Consume
             /\ UNCHANGED taint
TMatrix == Is("SolveMatrix") /\ Guard(Ev) /\ SolveMatrix(Ev.r, Ev.b) /\ Consume /\ UNCHANGED taint
\* the recorder saw the last reference to an object: its slot of the bounded pool is reused (FVLifecycle!Drop);
\* an object the specification never created (its creation event was not enabled) is skipped silently
Quiet == UNCHANGED <<vars>>
TDrop ==
  /\ Is("Drop")
  /\ IF alive[Ev.v] THEN Drop(Ev.v) ELSE Quiet
  /\ taint' = IF alive[Ev.v]
              THEN taint \ ({Ev.v} \cup (IF UsersOf(bcOf[Ev.v]) = {Ev.v} THEN {bcOf[Ev.v]} ELSE {}))
              ELSE taint
  /\ Consume
TDropBC ==
  /\ Is("DropBC")
  /\ IF bcAlive[Ev.b] /\ UsersOf(Ev.b) = {} THEN DropBC(Ev.b) ELSE Quiet
  /\ taint' = taint \ {Ev.b}
  /\ Consume
TSkip ==
  /\ phase = "act" /\ l < Len(Trace) /\ ~Guard(Ev)
  /\ l' = l + 1 /\ phase' = "act"
  /\ mism' = mism \cup {[line |-> l + 1, what |-> "not_enabled:" \o Ev.ev]}
  /\ UNCHANGED <<vars, viol, taint, pre>>

\* ---- second step: compare logged scalars, adopt them, judge the use ----------------------
Done == Trace[l]            \* the event just consumed
ObsVars(e) ==               \* [variable id |-> logged record] for the variables the event reports on
  CASE e.ev \in {"NewVar", "ApplyBCs", "SolvePDE", "UpdateValue"} -> (e.v :> e.obs)
    [] e.ev = "Copy" -> (e.w :> e.obs)
    [] e.ev = "SolveExplicit" -> (e.v :> e.obs_src) @@ (e.r :> e.obs_res)
    [] e.ev = "AssignValue" -> (e.v :> e.obs)
    [] OTHER -> <<>>
Sync ==
  /\ phase = "sync"
  /\ LET e == Done
         ov == ObsVars(e)
         vs == {v \in DOMAIN ov : alive[v]}
         dflag(v) == "val_dirty" \in DOMAIN ov[v] /\ ov[v].val_dirty # valDirty[v]
         dcache(v) == "has_cache" \in DOMAIN ov[v] /\ ov[v].has_cache # HasCache(v)
         dbc(v) == "dirty" \in DOMAIN ov[v] /\ ToSet(ov[v].dirty) # bcDirty[bcOf[v]]
         dside == e.ev = "EditBC" /\ bcAlive[e.b] /\ e.side_flag # (e.s \in bcDirty[e.b])
         newm == {[line |-> l, what |-> "val_dirty:" \o e.ev] : v \in {x \in vs : dflag(x)}}
                 \cup {[line |-> l, what |-> "has_cache:" \o e.ev] : v \in {x \in vs : dcache(x)}}
                 \cup {[line |-> l, what |-> "bc_dirty:" \o e.ev] : v \in {x \in vs : dbc(x)}}
                 \cup (IF dside THEN {[line |-> l, what |-> "side_flag:EditBC"]} ELSE {})
                 \cup (IF e.ev = "SolvePDE" /\ (e.error # "none") # (~use.exists)
                       THEN {[line |-> l, what |-> "error:SolvePDE"]} ELSE {})
                 \* the entry check of a solver fired exactly when the spec's flags say it must
                 \cup (IF e.ev \in {"SolvePDE", "SolveExplicit"} /\ e.entry # pre.needs
                       THEN {[line |-> l, what |-> "entry_check:" \o e.ev]} ELSE {})
         stale == e.ev = "SolvePDE" /\ use.var # None /\ (~use.exists \/ use.cache # use.bc)
     IN  /\ mism' = mism \cup newm
         /\ viol' = IF stale
                    THEN viol \cup {[line |-> l,
                                     clause |-> IF use.exists THEN "C09_FreshAtUse" ELSE "C09_CacheExists",
                                     shared |-> everShared[bcOf[e.v]],
                                     manual |-> (e.v \in taint \/ bcOf[e.v] \in taint)]}
                    ELSE viol
         \* adopt what the code logged
         /\ valDirty' = [v \in Vars |-> IF v \in vs /\ "val_dirty" \in DOMAIN ov[v] THEN ov[v].val_dirty
                                        ELSE valDirty[v]]
         /\ cacheFrom' = [v \in Vars |->
                            IF v \in vs /\ dcache(v)
                            THEN (IF ov[v].has_cache THEN bcC[bcOf[v]] ELSE None) ELSE cacheFrom[v]]
         /\ bcDirty' = [b \in BCs |->
                          IF \E v \in vs : bcOf[v] = b /\ "dirty" \in DOMAIN ov[v]
                          THEN ToSet(ov[CHOOSE v \in vs : bcOf[v] = b /\ "dirty" \in DOMAIN ov[v]].dirty)
                          ELSE IF e.ev = "EditBC" /\ bcAlive[e.b] /\ b = e.b
                               THEN (IF e.side_flag THEN bcDirty[b] \cup {e.s} ELSE bcDirty[b] \ {e.s})
                               ELSE bcDirty[b]]
         /\ ghostFrom' = [v \in Vars |->
                            IF e.ev = "NewVar" /\ v = e.v /\ alive[v] /\ e.ghost_given
                            THEN <<intC[v], None>> ELSE ghostFrom[v]]
  /\ phase' = "act"
  /\ UNCHANGED <<l, taint, pre, bcAlive, bcC, bcPer, viewHot, everShared, alive, bcOf, intC, precalc, use, last>>

Finish ==
  /\ phase = "act" /\ l = Len(Trace)
  /\ PrintT("@@ " \o ToJson([id |-> JsonDeserialize(IOEnv.TRACE_FILE).id, events |-> Len(Trace),
                             mism |-> mism, viol |-> viol]))
  /\ phase' = "done"
  /\ UNCHANGED <<vars, l, mism, viol, taint, pre>>

TInit == Init /\ l = 0 /\ phase = "act" /\ mism = {} /\ viol = {} /\ taint = {} /\ pre = [needs |-> FALSE]
TNext == TNewBC \/ TNewVar \/ TEditBC \/ TAssign \/ TSetFlag \/ TApply \/ TUpdate \/ TCopy \/ TSolve
         \/ TExplicit \/ TMatrix \/ TDrop \/ TDropBC \/ TSkip \/ Sync \/ Finish
TSpec == TInit /\ [][TNext]_<<vars, tvars>>
\* every event was consumed and the verdict printed
TraceAccepted == TLCGet("stats").diameter >= Len(Trace) + 2
=============================================================================
