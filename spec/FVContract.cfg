SPECIFICATION Spec
CONSTANT NVals = {1, 2, 3}
INVARIANT TypeOK
INVARIANT LoudForeign
INVARIANT GetSetAgree
INVARIANT RadialAlwaysRejected
INVARIANT TwoForms
