----------------------------- MODULE FVLimiters -----------------------------
(***************************************************************************)
(* The sixteen named flux limiters psi(r) as their published closed forms  *)
(* (Sweby 1984; Waterson & Deconinck 2007; the table of                    *)
(* https://en.wikipedia.org/wiki/Flux_limiter that the code cites) in      *)
(* exact rational arithmetic.  Removable singularities are resolved to the *)
(* finite value of the one-sided constant branch: CHARM(-1) = 0,           *)
(* HCUS(-2) = 0, HQUICK(-3) = 0 (all three vanish identically for r < 0).  *)
(***************************************************************************)
EXTENDS Rational

Names == {"CHARM", "HCUS", "HQUICK", "ospre", "VanLeer", "VanAlbada1", "VanAlbada2",
          "MinMod", "SUPERBEE", "Sweby", "Osher", "Koren", "smart", "MUSCL", "QUICK", "UMIST"}
\* limiters defined by clipping (max(0, ...)) or with an explicit r>0 switch: vanish for r <= 0
ClippingFamily == {"MinMod", "SUPERBEE", "Osher", "Sweby", "Koren", "MUSCL", "QUICK", "UMIST",
                   "smart", "VanLeer"}
Symmetric == {"VanLeer", "VanAlbada1", "MinMod", "SUPERBEE", "Sweby", "Osher", "ospre",
              "MUSCL", "UMIST", "CHARM"} \ {"Osher", "CHARM"}   \* psi(r)/r = psi(1/r)

Min3(a, b, c) == RMin(a, RMin(b, c))
Max0(a) == RMax(RZero, a)
Two == R(2)
Beta == <<3, 2>>

Psi(name, r) ==
  LET r2 == RSq(r) IN
  CASE name = "CHARM"      -> IF RPos(r) THEN RDiv(RMul(r, RAdd(RMul(R(3), r), ROne)), RSq(RAdd(r, ROne)))
                              ELSE RZero
    [] name = "HCUS"       -> IF RPos(r) THEN RDiv(RMul(R(3), r), RAdd(r, Two)) ELSE RZero
    [] name = "HQUICK"     -> IF RPos(r) THEN RDiv(RMul(R(4), r), RAdd(r, R(3))) ELSE RZero
    [] name = "ospre"      -> RDiv(RMul(<<3, 2>>, RAdd(r2, r)), RAdd(RAdd(r2, r), ROne))
    [] name = "VanLeer"    -> RDiv(RAdd(r, RAbs(r)), RAdd(ROne, RAbs(r)))
    [] name = "VanAlbada1" -> RDiv(RAdd(r2, r), RAdd(r2, ROne))
    [] name = "VanAlbada2" -> RDiv(RMul(Two, r), RAdd(r2, ROne))
    [] name = "MinMod"     -> Max0(RMin(ROne, r))
    [] name = "SUPERBEE"   -> RMax(Max0(RMin(RMul(Two, r), ROne)), RMin(r, Two))
    [] name = "Sweby"      -> RMax(Max0(RMin(RMul(Beta, r), ROne)), RMin(r, Beta))
    [] name = "Osher"      -> Max0(RMin(r, Beta))
    [] name = "Koren"      -> Max0(Min3(RMul(Two, r), RDiv(RAdd(ROne, RMul(Two, r)), R(3)), Two))
    [] name = "smart"      -> Max0(Min3(RMul(Two, r), RAdd(<<1, 4>>, RMul(<<3, 4>>, r)), R(4)))
    [] name = "MUSCL"      -> Max0(Min3(RMul(Two, r), RMul(RHalf, RAdd(ROne, r)), Two))
    [] name = "QUICK"      -> Max0(Min3(RMul(Two, r), RDiv(RAdd(R(3), r), R(4)), Two))
    [] name = "UMIST"      -> Max0(RMin(Min3(RMul(Two, r), RAdd(<<1, 4>>, RMul(<<3, 4>>, r)),
                                             RAdd(<<3, 4>>, RMul(<<1, 4>>, r))), Two))
    [] OTHER               -> RMax(Max0(RMin(RMul(Two, r), ROne)), RMin(r, Two))   \* fallback: SUPERBEE

\* properties of a value table  f : r -> psi  for limiter `name' (reference or observed)
TVDBound(r, v)  == RPos(r) => (RLe(RZero, v) /\ RLe(v, RMin(RMul(Two, r), R(4))))
ClipZero(name, r, v) == (name \in ClippingFamily /\ RLe(r, RZero)) => v = RZero

\* enclosures of psi for |r| >= 1000, in units of 1e-6 (fixed point), used for huge arguments
HiLo(name, positive) ==
  IF positive THEN
    CASE name = "CHARM" -> <<2990000, 3000000>> [] name = "HCUS" -> <<2990000, 3000000>>
      [] name = "HQUICK" -> <<3980000, 4000000>> [] name = "ospre" -> <<1490000, 1500000>>
      [] name = "VanLeer" -> <<1990000, 2000000>> [] name = "VanAlbada1" -> <<1000000, 1001000>>
      [] name = "VanAlbada2" -> <<0, 2000>> [] name = "MinMod" -> <<1000000, 1000000>>
      [] name = "SUPERBEE" -> <<2000000, 2000000>> [] name = "Sweby" -> <<1500000, 1500000>>
      [] name = "Osher" -> <<1500000, 1500000>> [] name = "Koren" -> <<2000000, 2000000>>
      [] name = "smart" -> <<4000000, 4000000>> [] name = "MUSCL" -> <<2000000, 2000000>>
      [] name = "QUICK" -> <<2000000, 2000000>> [] name = "UMIST" -> <<2000000, 2000000>>
      [] OTHER -> <<2000000, 2000000>>
  ELSE
    CASE name = "ospre" -> <<1490000, 1500000>> [] name = "VanAlbada1" -> <<990000, 1000000>>
      [] name = "VanAlbada2" -> <<-2000, 0>> [] OTHER -> <<0, 0>>
=============================================================================
