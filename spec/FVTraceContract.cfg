SPECIFICATION TSpec
CONSTANT NVals = {1, 2, 3}
POSTCONDITION TraceAccepted
