----------------------------- MODULE FVGeometry -----------------------------
(***************************************************************************)
(* Reference geometry of PyFVTool's nine structured grid classes.          *)
(*                                                                         *)
(* A mesh is a record  g = [cls, faces, aunit]                             *)
(*   cls    : one of Classes                                               *)
(*   faces  : tuple (one entry per axis) of strictly increasing sequences  *)
(*            of rationals <<n,d>> - the face positions along that axis    *)
(*   aunit  : unit of the angular axes: "rad" (plain radians, rational),   *)
(*            "pi" (multiples of pi, trigonometric values from the exact   *)
(*            table of Niven angles) or "sur" (radians, with the rational  *)
(*            surrogate metric s(t)=t(4-t)/4, c(t)=1-t^2/2+t^3/12, c'=-s,  *)
(*            DESIGN 3.3 D3)                                               *)
(* Cells along an axis are numbered 0..N+1 (0 and N+1 ghost), faces 0..N   *)
(* (face j lies between cells j and j+1).  A cell is a tuple of Dim        *)
(* indices.  Everything is exact (module Rational).                        *)
(***************************************************************************)
EXTENDS Rational, SequencesExt

Classes == {"Grid1D", "CylindricalGrid1D", "SphericalGrid1D",
            "Grid2D", "CylindricalGrid2D", "PolarGrid2D",
            "Grid3D", "CylindricalGrid3D", "SphericalGrid3D"}

Dim(cls) == CASE cls \in {"Grid1D", "CylindricalGrid1D", "SphericalGrid1D"} -> 1
              [] cls \in {"Grid2D", "CylindricalGrid2D", "PolarGrid2D"}     -> 2
              [] OTHER                                                       -> 3

\* user-visible coordinate label of each internal axis (docs/user_guide/meshes.md)
AxisLabels(cls) ==
  CASE cls = "Grid1D"            -> <<"x">>
    [] cls = "CylindricalGrid1D" -> <<"r">>
    [] cls = "SphericalGrid1D"   -> <<"r">>
    [] cls = "Grid2D"            -> <<"x", "y">>
    [] cls = "CylindricalGrid2D" -> <<"r", "z">>
    [] cls = "PolarGrid2D"       -> <<"r", "theta">>
    [] cls = "Grid3D"            -> <<"x", "y", "z">>
    [] cls = "CylindricalGrid3D" -> <<"r", "theta", "z">>
    [] cls = "SphericalGrid3D"   -> <<"r", "theta", "phi">>

AllLabels == {"x", "y", "z", "r", "theta", "phi"}
\* LabelAxis(cls, l) = internal axis number (1..3) or 0 when the label is foreign to cls
LabelAxis(cls, l) ==
  LET ls == AxisLabels(cls)
      hits == {a \in 1..Len(ls) : ls[a] = l}
  IN  IF hits = {} THEN 0 ELSE CHOOSE a \in hits : TRUE

IsRadial(cls, a)  == AxisLabels(cls)[a] = "r"
IsAngular(cls, a) == AxisLabels(cls)[a] \in {"theta", "phi"}
Family(cls) == CASE cls \in {"Grid1D", "Grid2D", "Grid3D"} -> "cartesian"
                 [] cls \in {"CylindricalGrid1D", "CylindricalGrid2D", "PolarGrid2D",
                             "CylindricalGrid3D"}          -> "cylindrical"
                 [] OTHER                                   -> "spherical"

-----------------------------------------------------------------------------
(* per-axis quantities *)
NCells(g, a)   == Len(g.faces[a]) - 1
Dims(g)        == [a \in 1..Dim(g.cls) |-> NCells(g, a)]
Face(g, a, j)  == g.faces[a][j + 1]                       \* j \in 0..N
Size(g, a, i)  == LET N == NCells(g, a)                   \* i \in 0..N+1, ghosts repeat
                      k == IF i = 0 THEN 1 ELSE IF i = N + 1 THEN N ELSE i
                  IN  RSub(Face(g, a, k), Face(g, a, k - 1))
Centre(g, a, i) == RMul(RHalf, RAdd(Face(g, a, i - 1), Face(g, a, i)))   \* i \in 1..N
\* centre distance across face j (between cells j and j+1)
Delta(g, a, j) == RMul(RHalf, RAdd(Size(g, a, j), Size(g, a, j + 1)))

SizesSeq(g, a)   == [i \in 1..(NCells(g, a) + 2) |-> Size(g, a, i - 1)]
CentresSeq(g, a) == [i \in 1..NCells(g, a) |-> Centre(g, a, i)]

\* equispaced faces of the (N, L) constructor form
EquiFaces(N, L) == [j \in 1..(N + 1) |-> RMul(R(j - 1), RDiv(L, R(N)))]

StrictlyIncreasing(s) == \A i \in 1..(Len(s) - 1) : RLt(s[i], s[i + 1])
WellFormed(g) ==
  /\ g.cls \in Classes
  /\ Len(g.faces) = Dim(g.cls)
  /\ \A a \in 1..Dim(g.cls) :
        /\ Len(g.faces[a]) >= 2
        /\ StrictlyIncreasing(g.faces[a])
        /\ (IsRadial(g.cls, a) => RGe(g.faces[a][1], RZero))

-----------------------------------------------------------------------------
(* cells *)
IdxRange(g, a, ghosts) == IF ghosts THEN 0..(NCells(g, a) + 1) ELSE 1..NCells(g, a)
CellSet(g, ghosts) ==
  CASE Dim(g.cls) = 1 -> {<<i>> : i \in IdxRange(g, 1, ghosts)}
    [] Dim(g.cls) = 2 -> {<<i, j>> : i \in IdxRange(g, 1, ghosts), j \in IdxRange(g, 2, ghosts)}
    [] OTHER          -> {<<i, j, k>> : i \in IdxRange(g, 1, ghosts), j \in IdxRange(g, 2, ghosts),
                                         k \in IdxRange(g, 3, ghosts)}
Interior(g) == CellSet(g, FALSE)
AllCells(g) == CellSet(g, TRUE)
\* number of axes along which the cell index is a ghost index: 0 interior, 1 ghost,
\* 2 edge (3D) / corner (2D), 3 corner (3D)
GhostDegree(g, c) == Cardinality({a \in 1..Dim(g.cls) : c[a] = 0 \/ c[a] = NCells(g, a) + 1})
\* C-order linear index used by the code (G = arange.reshape(dims+2))
RECURSIVE LinIdxFrom(_, _, _)
LinIdxFrom(g, c, a) == IF a = 0 THEN 0
                       ELSE LinIdxFrom(g, c, a - 1) * (NCells(g, a) + 2) + c[a]
LinIdx(g, c) == LinIdxFrom(g, c, Dim(g.cls))
Shift(c, a, d) == [c EXCEPT ![a] = c[a] + d]

-----------------------------------------------------------------------------
(* metric functions of the polar angle (spherical grids) *)
PiCos(q) == CASE q = <<0, 1>> -> <<1, 1>> [] q = <<1, 3>> -> <<1, 2>> [] q = <<1, 2>> -> <<0, 1>>
              [] q = <<2, 3>> -> <<-1, 2>> [] q = <<1, 1>> -> <<-1, 1>>
PiSin(q) == CASE q = <<0, 1>> -> <<0, 1>> [] q = <<1, 6>> -> <<1, 2>> [] q = <<1, 2>> -> <<1, 1>>
              [] q = <<5, 6>> -> <<1, 2>> [] q = <<1, 1>> -> <<0, 1>>
SurSin(t) == RMul(RMul(t, RSub(R(4), t)), <<1, 4>>)
SurCos(t) == RAdd(RSub(ROne, RMul(RHalf, RSq(t))), RMul(<<1, 12>>, RCube(t)))
SinM(g, t) == IF g.aunit = "pi" THEN PiSin(t) ELSE SurSin(t)
CosM(g, t) == IF g.aunit = "pi" THEN PiCos(t) ELSE SurCos(t)

-----------------------------------------------------------------------------
(* true geometric cell volumes, as rational multiples of pi^PiExp *)
PiExp(cls, aunit) ==
  CASE cls \in {"CylindricalGrid1D", "SphericalGrid1D", "CylindricalGrid2D"} -> 1
    [] cls \in {"PolarGrid2D", "CylindricalGrid3D", "SphericalGrid3D"}       ->
          IF aunit = "pi" THEN 1 ELSE 0
    [] OTHER -> 0

D2(g, i) == RSub(RSq(Face(g, 1, i)), RSq(Face(g, 1, i - 1)))        \* r_e^2 - r_w^2
D3(g, i) == RSub(RCube(Face(g, 1, i)), RCube(Face(g, 1, i - 1)))    \* r_e^3 - r_w^3

VolGeom(g, c) ==
  LET cls == g.cls IN
  CASE cls = "Grid1D"            -> Size(g, 1, c[1])
    [] cls = "Grid2D"            -> RMul(Size(g, 1, c[1]), Size(g, 2, c[2]))
    [] cls = "Grid3D"            -> RMul(Size(g, 1, c[1]), RMul(Size(g, 2, c[2]), Size(g, 3, c[3])))
    [] cls = "CylindricalGrid1D" -> D2(g, c[1])                                  \* * pi
    [] cls = "SphericalGrid1D"   -> RMul(<<4, 3>>, D3(g, c[1]))                  \* * pi
    [] cls = "CylindricalGrid2D" -> RMul(D2(g, c[1]), Size(g, 2, c[2]))          \* * pi
    [] cls = "PolarGrid2D"       -> RMul(RMul(RHalf, D2(g, c[1])), Size(g, 2, c[2]))
    [] cls = "CylindricalGrid3D" -> RMul(RMul(RMul(RHalf, D2(g, c[1])), Size(g, 2, c[2])),
                                         Size(g, 3, c[3]))
    [] cls = "SphericalGrid3D"   -> RMul(RMul(RMul(<<1, 3>>, D3(g, c[1])),
                                              RSub(CosM(g, Face(g, 2, c[2] - 1)),
                                                   CosM(g, Face(g, 2, c[2])))),
                                         Size(g, 3, c[3]))

\* the same for the whole domain, computed from the outer faces only (independent formula)
Lo(g, a) == g.faces[a][1]
Hi(g, a) == g.faces[a][Len(g.faces[a])]
Ext(g, a) == RSub(Hi(g, a), Lo(g, a))
DomainVolume(g) ==
  LET cls == g.cls
      R2 == RSub(RSq(Hi(g, 1)), RSq(Lo(g, 1)))
      R3 == RSub(RCube(Hi(g, 1)), RCube(Lo(g, 1)))
  IN
  CASE cls = "Grid1D"            -> Ext(g, 1)
    [] cls = "Grid2D"            -> RMul(Ext(g, 1), Ext(g, 2))
    [] cls = "Grid3D"            -> RMul(Ext(g, 1), RMul(Ext(g, 2), Ext(g, 3)))
    [] cls = "CylindricalGrid1D" -> R2
    [] cls = "SphericalGrid1D"   -> RMul(<<4, 3>>, R3)
    [] cls = "CylindricalGrid2D" -> RMul(R2, Ext(g, 2))
    [] cls = "PolarGrid2D"       -> RMul(RMul(RHalf, R2), Ext(g, 2))
    [] cls = "CylindricalGrid3D" -> RMul(RMul(RMul(RHalf, R2), Ext(g, 2)), Ext(g, 3))
    [] cls = "SphericalGrid3D"   -> RMul(RMul(RMul(<<1, 3>>, R3),
                                              RSub(CosM(g, Lo(g, 2)), CosM(g, Hi(g, 2)))),
                                         Ext(g, 3))

VolSum(g) == RSumSet(Interior(g), LAMBDA c : VolGeom(g, c))

\* true geometric area of face j of axis a on the line of cells through interior cell c, in the
\* same units of pi as VolGeom (so that area * flux integrates to a change of the domain integral)
FaceAreaGeo(g, a, c, j) ==
  LET cls == g.cls
      sz(b) == Size(g, b, c[b])
      rf == Face(g, 1, j)
  IN
  CASE cls = "Grid1D" -> ROne
    [] cls = "Grid2D" -> sz(3 - a)
    [] cls = "Grid3D" -> RMul(sz(IF a = 1 THEN 2 ELSE 1), sz(IF a = 3 THEN 2 ELSE 3))
    [] cls = "CylindricalGrid1D" -> RMul(R(2), rf)                                 \* 2 pi r * 1
    [] cls = "SphericalGrid1D"   -> RMul(R(4), RSq(rf))                            \* 4 pi r^2
    [] cls = "CylindricalGrid2D" -> IF a = 1 THEN RMul(RMul(R(2), rf), sz(2)) ELSE D2(g, c[1])
    [] cls = "PolarGrid2D"       -> IF a = 1 THEN RMul(rf, sz(2)) ELSE sz(1)
    [] cls = "CylindricalGrid3D" ->
         IF a = 1 THEN RMul(RMul(rf, sz(2)), sz(3))
         ELSE IF a = 2 THEN RMul(sz(1), sz(3))
         ELSE RMul(RMul(RHalf, D2(g, c[1])), sz(2))
    [] cls = "SphericalGrid3D" ->      \* midpoint-rule areas (what the scheme uses)
         IF a = 1 THEN RMul(RMul(RSq(rf), SinM(g, Centre(g, 2, c[2]))), RMul(sz(2), sz(3)))
         ELSE IF a = 2 THEN RMul(RMul(Centre(g, 1, c[1]), SinM(g, Face(g, 2, j))), RMul(sz(1), sz(3)))
         ELSE RMul(Centre(g, 1, c[1]), RMul(sz(1), sz(2)))

-----------------------------------------------------------------------------
(* metric tables of the discretisation (DESIGN appendix A)                 *)
(*   AreaF(g,a,c,j)  face-area factor of face j of axis a on the line of   *)
(*                   cells through c                                       *)
(*   Weight(g,a,c)   cell weight (includes the cell size along a)          *)
(*   GScale(g,a,c)   gradient scale of axis a on the line through c        *)
(* c is an interior cell (its index along a is irrelevant for AreaF/GScale)*)
Rp(g, c)  == Centre(g, 1, c[1])
ThP(g, c) == Centre(g, 2, c[2])

AreaF(g, a, c, j) ==
  LET cls == g.cls IN
  CASE Family(cls) = "cartesian" -> ROne
    [] Family(cls) = "cylindrical" -> IF a = 1 THEN Face(g, 1, j) ELSE ROne
    [] cls = "SphericalGrid1D" -> RSq(Face(g, 1, j))
    [] cls = "SphericalGrid3D" -> IF a = 1 THEN RSq(Face(g, 1, j))
                                  ELSE IF a = 2 THEN SinM(g, Face(g, 2, j)) ELSE ROne

Weight(g, a, c) ==
  LET cls == g.cls
      d == Size(g, a, c[a]) IN
  CASE Family(cls) = "cartesian" -> d
    [] Family(cls) = "cylindrical" ->
         IF IsRadial(cls, a) \/ IsAngular(cls, a) THEN RMul(Rp(g, c), d) ELSE d
    [] cls = "SphericalGrid1D" -> RMul(<<1, 3>>, D3(g, c[1]))
    [] cls = "SphericalGrid3D" ->
         IF a = 1 THEN RMul(RSq(Rp(g, c)), d)
         ELSE RMul(RMul(Rp(g, c), SinM(g, ThP(g, c))), d)

GScale(g, a, c) ==
  LET cls == g.cls IN
  IF ~IsAngular(cls, a) THEN ROne
  ELSE IF AxisLabels(cls)[a] = "theta" THEN Rp(g, c)
  ELSE RMul(Rp(g, c), SinM(g, ThP(g, c)))
=============================================================================
