------------------------ MODULE FVLifecycleIndProof ------------------------
(***************************************************************************)
(* TLAPS proof (extra, C09 thorough tier) that IndInv of FVLifecycleInd is *)
(* an inductive invariant for ARBITRARY sets Vars, BCs and Sides - any     *)
(* number of variables and boundary-condition objects, histories of any    *)
(* length - and that it implies C09_FreshAtUseUnshared.  Apalache checks   *)
(* the same for pools of three; TLC explores the full FVLifecycle model to *)
(* a bounded depth.  Checked with:  tlapm -I .. FVLifecycleIndProof.tla    *)
(* (38 obligations, SMT back end).  This directory is not parsed by SANY   *)
(* in setup.sh because the TLAPS standard module is not on TLC's path.     *)
(***************************************************************************)
EXTENDS FVLifecycleInd, TLAPS

vars == <<bcAlive, bcC, bcDirty, everShared, alive, bcOf, intC, ghostI, ghostB, cacheFrom, valDirty>>

ASSUME B1 == "b1" \in BCs

THEOREM InitInv == Init => IndInv
  BY B1 DEF Init, IndInv, TypeOK, Ids

THEOREM Conseq == IndInv => C09_FreshAtUseUnshared
  BY DEF IndInv, TypeOK, C09_FreshAtUseUnshared, NeedsApply

THEOREM StepInv == IndInv /\ [Next]_vars => IndInv'
<1> SUFFICES ASSUME IndInv, [Next]_vars PROVE IndInv'
  OBVIOUS
<1>1. CASE UNCHANGED vars
  BY <1>1 DEF IndInv, TypeOK, vars
<1>2. ASSUME NEW b \in BCs, NEW c \in Ids, NewBC(b, c) PROVE IndInv'
  BY <1>2 DEF IndInv, TypeOK, NewBC
<1>3. ASSUME NEW v \in Vars, NEW b \in BCs, NEW c \in Ids, NewVar(v, b, c) PROVE IndInv'
  BY <1>3 DEF IndInv, TypeOK, NewVar, UsersOf, AliveVars
<1>4. ASSUME NEW v \in Vars, NEW b \in BCs, NEW c \in Ids, NEW cb \in Ids, NewVarOwn(v, b, c, cb) PROVE IndInv'
  BY <1>4 DEF IndInv, TypeOK, NewVarOwn
<1>5. ASSUME NEW b \in BCs, NEW s \in Sides, NEW c \in Ids, EditBC(b, s, c) PROVE IndInv'
  BY <1>5 DEF IndInv, TypeOK, EditBC
<1>6. ASSUME NEW v \in Vars, NEW c \in Ids, AssignValue(v, c) PROVE IndInv'
  BY <1>6 DEF IndInv, TypeOK, AssignValue
<1>7. ASSUME NEW v \in Vars, NEW w \in Vars, UpdateValue(v, w) PROVE IndInv'
  BY <1>7 DEF IndInv, TypeOK, UpdateValue
<1>8. ASSUME NEW v \in Vars, NEW w \in Vars, NEW b \in BCs, NEW c \in Ids, CopyLike(v, w, b, c) PROVE IndInv'
  BY <1>8 DEF IndInv, TypeOK, CopyLike
<1>9. ASSUME NEW v \in Vars, ApplyBCs(v) PROVE IndInv'
  BY <1>9 DEF IndInv, TypeOK, ApplyBCs
<1>10. ASSUME NEW v \in Vars, NEW c \in Ids, SolvePDE(v, c) PROVE IndInv'
  BY <1>10 DEF IndInv, TypeOK, SolvePDE
<1>11. ASSUME NEW v \in Vars, NEW r \in Vars, NEW c \in Ids, SolveExplicit(v, r, c) PROVE IndInv'
  BY <1>11 DEF IndInv, TypeOK, SolveExplicit, NeedsApply
<1> QED
  BY <1>1, <1>2, <1>3, <1>4, <1>5, <1>6, <1>7, <1>8, <1>9, <1>10, <1>11 DEF Next
=============================================================================
