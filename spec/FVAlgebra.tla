------------------------------ MODULE FVAlgebra ------------------------------
(***************************************************************************)
(* C14, value level: the operator table of CellVariable / FaceVariable.    *)
(* A request is [op, kind, a, b]: the variable holds the value a in every  *)
(* cell (face), the other operand (a second variable, a scalar, or - on    *)
(* the right of a CellVariable - an ndarray) holds b.  Expected(r) is the  *)
(* elementwise result as an exact rational (booleans as 1 / 0) or          *)
(* NaR (division by zero, zero to a negative power).  TLC          *)
(* enumerates the table; every request is executed on real variables of    *)
(* every grid class and the recorded results are validated against it.     *)
(***************************************************************************)
EXTENDS Rational, Json, IOUtils, SequencesExt

Binary    == {"add", "sub", "mul", "truediv", "pow", "gt", "ge", "lt", "le", "and", "or"}
Reflected == {"radd", "rsub", "rmul", "rtruediv", "rpow", "rand", "ror"}    \* scalar on the left
Unary     == {"neg", "abs"}
Ops       == Binary \cup Reflected \cup Unary
Kinds     == {"var", "scalar", "array"}
Vals      == {<<-2, 1>>, <<-1, 1>>, <<0, 1>>, <<1, 2>>, <<1, 1>>, <<2, 1>>, <<3, 1>>}
Bool(p)   == IF p THEN ROne ELSE RZero
Truthy(q) == ~RIsZero(q)
IsInt(q)  == q[2] = 1

\* x ** y for integer y
Pow(x, y) == IF ~IsInt(y) THEN NaR
             ELSE IF y[1] >= 0 THEN RPow(x, y[1])
             ELSE IF RIsZero(x) THEN NaR ELSE RInv(RPow(x, -y[1]))

Base(op) == CASE op = "radd" -> "add" [] op = "rsub" -> "sub" [] op = "rmul" -> "mul"
              [] op = "rtruediv" -> "truediv" [] op = "rpow" -> "pow" [] op = "rand" -> "and"
              [] op = "ror" -> "or" [] OTHER -> op
\* value of  x <op> y
Apply(op, x, y) ==
  CASE op = "add" -> RAdd(x, y) [] op = "sub" -> RSub(x, y) [] op = "mul" -> RMul(x, y)
    [] op = "truediv" -> IF RIsZero(y) THEN NaR ELSE RDiv(x, y)
    [] op = "pow" -> Pow(x, y)
    [] op = "gt" -> Bool(RGt(x, y)) [] op = "ge" -> Bool(RGe(x, y))
    [] op = "lt" -> Bool(RLt(x, y)) [] op = "le" -> Bool(RLe(x, y))
    [] op = "and" -> Bool(Truthy(x) /\ Truthy(y)) [] op = "or" -> Bool(Truthy(x) \/ Truthy(y))
    [] op = "neg" -> RNeg(x) [] op = "abs" -> RAbs(x)
\* the variable holds a; for reflected operators the other operand (b) stands on the left
RECURSIVE WSum(_, _)
WSum(x, n) == IF n = 0 THEN RZero ELSE RAdd(WSum(x, n - 1), RMul(R(n), RAdd(x, R(n - 1))))
Expected(r) == IF r.op = "eval" THEN WSum(r.a, r.b[1])
               ELSE IF r.op \in Reflected THEN Apply(Base(r.op), r.b, r.a) ELSE Apply(r.op, r.a, r.b)

Requests ==
       {[op |-> o, kind |-> k, a |-> x, b |-> y] : o \in Binary, k \in Kinds, x \in Vals, y \in Vals}
  \cup {[op |-> o, kind |-> "scalar", a |-> x, b |-> y] : o \in Reflected, x \in Vals, y \in Vals}
  \cup {[op |-> o, kind |-> "none", a |-> x, b |-> RZero] : o \in Unary, x \in Vals}
  \* funceval / celleval / faceeval with n = 1..8 variables: f = weighted sum  sum_k k * arg_k,
  \* argument k holds a + k - 1  (b carries n)
  \cup {[op |-> "eval", kind |-> "var", a |-> x, b |-> R(n)] : x \in Vals, n \in 1..8}

VARIABLES req, resp, val
Init == req = [op |-> "none"] /\ resp = "idle" /\ val = RZero
Issue == /\ resp = "idle"
         /\ \E r \in Requests :
              /\ req' = r
              /\ PrintT("@@ " \o ToJson([req |-> r, expected |-> Expected(r)]))
         /\ resp' = "pending" /\ val' = val
Respond == resp = "pending" /\ resp' = "done" /\ val' = Expected(req) /\ req' = req
Next == Issue \/ Respond
Spec == Init /\ [][Next]_<<req, resp, val>>

\* sanity of the table itself
Commutes == \A x \in Vals, y \in Vals :
               /\ Apply("add", x, y) = Apply("add", y, x) /\ Apply("mul", x, y) = Apply("mul", y, x)
               /\ Apply("gt", x, y) = Apply("lt", y, x) /\ Apply("ge", x, y) = Apply("le", y, x)
ReflectedAgree == \A o \in Reflected, x \in Vals, y \in Vals :
                     Expected([op |-> o, kind |-> "scalar", a |-> x, b |-> y]) = Apply(Base(o), y, x)
NegAbs == \A x \in Vals : Apply("abs", Apply("neg", x, RZero), RZero) = Apply("abs", x, RZero)

=============================================================================
