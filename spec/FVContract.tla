----------------------------- MODULE FVContract -----------------------------
(***************************************************************************)
(* C16: the accept / reject contract of the public API as a request ->     *)
(* response machine.  A request is a record with a `kind'; Expected(r) is  *)
(* the documented outcome class: "ok" or the exception type.  The label    *)
(* tables are written twice - transcribed from docs/user_guide/meshes.md   *)
(* and derived from the coordinate system of the class (FVGeometry) - and  *)
(* ASSUMEd equal.  TLC enumerates the complete request space; every        *)
(* request is executed against the real API (one implementation test per   *)
(* transition) and the recorded (request, outcome) events are validated    *)
(* by FVTraceContract.                                                     *)
(***************************************************************************)
EXTENDS FVGeometry, Json, TLC

CONSTANT NVals          \* cell counts used per axis, e.g. {1, 2, 3}

Outcomes == {"ok", "AttributeError", "TypeError", "ValueError"}
Props    == {"cellsize", "cellcenters", "facecenters"}
Comps    == {"xvalue", "yvalue", "zvalue", "rvalue", "thetavalue", "phivalue"}
CompLabel(c) == CASE c = "xvalue" -> "x" [] c = "yvalue" -> "y" [] c = "zvalue" -> "z"
                  [] c = "rvalue" -> "r" [] c = "thetavalue" -> "theta" [] c = "phivalue" -> "phi"

\* --- the documentation tables, transcribed literally (rows: class, columns _x _y _z) ---
DocTable ==
  [c \in Classes |->
     CASE c = "Grid1D"            -> <<"x">>
       [] c = "CylindricalGrid1D" -> <<"r">>
       [] c = "SphericalGrid1D"   -> <<"r">>
       [] c = "Grid2D"            -> <<"x", "y">>
       [] c = "CylindricalGrid2D" -> <<"r", "z">>
       [] c = "PolarGrid2D"       -> <<"r", "theta">>
       [] c = "Grid3D"            -> <<"x", "y", "z">>
       [] c = "CylindricalGrid3D" -> <<"r", "theta", "z">>
       [] c = "SphericalGrid3D"   -> <<"r", "theta", "phi">>]
\* --- derived from the coordinate system: Cartesian (x,y,z), cylindrical (r,theta,z) with
\*     the 2D variants (r,z) and (r,theta), spherical (r,theta,phi) ---
SystemLabels(c) ==
  LET full == CASE Family(c) = "cartesian" -> <<"x", "y", "z">>
                [] Family(c) = "cylindrical" -> <<"r", "theta", "z">>
                [] OTHER -> <<"r", "theta", "phi">>
  IN  IF c = "CylindricalGrid2D" THEN <<"r", "z">> ELSE SubSeq(full, 1, Dim(c))
ASSUME \A c \in Classes : DocTable[c] = SystemLabels(c) /\ DocTable[c] = AxisLabels(c)

HasLabel(c, l) == \E a \in 1..Dim(c) : DocTable[c][a] = l

Sides(c) == CASE Dim(c) = 1 -> {"left", "right"}
              [] Dim(c) = 2 -> {"left", "right", "bottom", "top"}
              [] OTHER      -> {"left", "right", "bottom", "top", "back", "front"}
SideAxis(s) == IF s \in {"left", "right"} THEN 1 ELSE IF s \in {"bottom", "top"} THEN 2 ELSE 3

ShapeFamilies == {"scalar", "size1", "dims", "dims+2", "transposed", "dims+1", "toolong",
                  "rank+1", "rank-1", "flat", "ghost_transposed", "ghost_flat", "ghost_regrouped"}
TermKinds == {"matrix", "vector", "pair", "negmatrix", "negvector", "array0d", "array3d",
              "swappedpair", "pair3d", "float", "none", "list", "string"}
BCArgKinds == {"ndarray", "float", "list", "none", "int"}
\* where the periodic flags meet the library: the constructor, apply_BCs, the two solvers, the boundary-term
\* builder - and the first three again for a variable built with BCsTerm_precalc=False (no boundary term is
\* pre-computed, so the check cannot be left to the term builder alone)
Vias == {"ctor", "apply_BCs", "solvePDE", "bcterm", "explicit",
         "ctor_noprecalc", "apply_noprecalc", "explicit_noprecalc"}

NTuples(c) == CASE Dim(c) = 1 -> {<<i>> : i \in NVals}
                [] Dim(c) = 2 -> {<<i, j>> : i \in NVals, j \in NVals}
                [] OTHER      -> {<<i, j, k>> : i \in NVals, j \in NVals, k \in NVals}

ReqOf(c) ==
       {[kind |-> "label_get", cls |-> c, prop |-> p, label |-> l] : p \in Props, l \in AllLabels}
  \cup {[kind |-> "comp_get", cls |-> c, comp |-> k] : k \in Comps}
  \cup {[kind |-> "comp_set", cls |-> c, comp |-> k] : k \in Comps}
  \cup {[kind |-> "ctor", cls |-> c, arity |-> k, argkind |-> t] :
             k \in 0..7, t \in {"arrays", "numbers"}}
  \cup {[kind |-> "ctor_valid", cls |-> c, form |-> f, N |-> n] :
             f \in {"faces", "NL"}, n \in NTuples(c)}
  \cup {[kind |-> "init_shape", cls |-> c, family |-> f, N |-> n] :
             f \in ShapeFamilies, n \in NTuples(c)}
  \cup {[kind |-> "periodic", cls |-> c, sides |-> S, via |-> v] :
             S \in (SUBSET Sides(c)) \ {{}}, v \in Vias}
  \cup {[kind |-> "term", cls |-> c, term |-> t] : t \in TermKinds}
  \cup {[kind |-> "smoke", cls |-> c, N |-> n] : n \in NTuples(c)}
Requests ==
       UNION {ReqOf(c) : c \in Classes}
  \cup {[kind |-> "bc_coeff", a |-> x, b |-> y, c |-> z] :
             x \in BCArgKinds, y \in BCArgKinds, z \in BCArgKinds}

\* an initial-value shape family is meaningful for dims n (otherwise it coincides with an
\* accepted shape, e.g. the transpose of a square block) - those requests are skipped
RECURSIVE Prod(_)
Prod(s) == IF s = <<>> THEN 1 ELSE Head(s) * Prod(Tail(s))
Plus(n, d) == [a \in 1..Len(n) |-> n[a] + d]
Rev(n) == [a \in 1..Len(n) |-> n[Len(n) + 1 - a]]
ShapeOf(f, n) ==
  CASE f = "dims" -> n [] f = "dims+2" -> Plus(n, 2) [] f = "dims+1" -> Plus(n, 1)
    [] f = "transposed" -> Rev(n)
    [] f = "toolong" -> [n EXCEPT ![1] = n[1] + 3]
    [] f = "rank+1" -> n \o <<2>>
    [] f = "rank-1" -> IF Len(n) = 1 THEN <<>> ELSE SubSeq(n, 1, Len(n) - 1)
    [] f = "flat" -> <<7>>
    [] f = "ghost_transposed" -> Rev(Plus(n, 2))            \* as many elements as the ghost-inclusive array
    [] f = "ghost_flat" -> <<Prod(Plus(n, 2))>>
    [] f = "ghost_regrouped" -> IF Len(n) = 1 THEN <<Prod(Plus(n, 2)), 1>>
                                ELSE <<Plus(n, 2)[1] * Plus(n, 2)[2]>> \o SubSeq(Plus(n, 2), 3, Len(n)) \o <<1>>
    [] OTHER -> <<>>
ShapeAccepted(f, n) == f \in {"scalar", "size1", "dims", "dims+2"}   \* docs: scalar, one element,
                                                                     \* grid shape, grid-with-ghosts shape
Meaningful(r) ==
  CASE r.kind = "init_shape" ->
          \/ ShapeAccepted(r.family, r.N)
          \/ LET s == ShapeOf(r.family, r.N)
             IN  Len(s) > 0 /\ Prod(s) # 1 /\ s # r.N /\ s # Plus(r.N, 2)
    [] r.kind = "ctor" -> ~(r.arity = 6 /\ Dim(r.cls) < 3)     \* internal six-argument form
                          /\ ~(r.arity = 0 /\ r.argkind = "arrays")
                          \* right arity of the other form with the wrong kind of argument
                          /\ ~(r.argkind = "arrays" /\ r.arity = 2 * Dim(r.cls))
                          /\ ~(r.argkind = "numbers" /\ r.arity = Dim(r.cls))
    [] OTHER -> TRUE

CtorArityOk(c, k, t) == (t = "arrays" /\ k = Dim(c)) \/ (t = "numbers" /\ k = 2 * Dim(c))

Expected(r) ==
  CASE r.kind = "label_get" -> IF HasLabel(r.cls, r.label) THEN "ok" ELSE "AttributeError"
    [] r.kind \in {"comp_get", "comp_set"} ->
          IF HasLabel(r.cls, CompLabel(r.comp)) THEN "ok" ELSE "AttributeError"
    [] r.kind = "ctor" -> IF CtorArityOk(r.cls, r.arity, r.argkind) THEN "ok" ELSE "TypeError"
    [] r.kind = "ctor_valid" -> "ok"
    [] r.kind = "init_shape" -> IF ShapeAccepted(r.family, r.N) THEN "ok" ELSE "ValueError"
    [] r.kind = "periodic" ->
          IF IsRadial(r.cls, 1) /\ r.sides \cap {"left", "right"} # {} THEN "ValueError" ELSE "ok"
    [] r.kind = "bc_coeff" ->
          IF r.a = "ndarray" /\ r.b = "ndarray" /\ r.c = "ndarray" THEN "ok" ELSE "TypeError"
    [] r.kind = "term" ->
          IF r.term \in {"matrix", "vector", "pair", "negmatrix", "negvector"} THEN "ok" ELSE "TypeError"
    [] r.kind = "smoke" -> "ok"

-----------------------------------------------------------------------------
VARIABLES req, resp
vars == <<req, resp>>
Init == req = [kind |-> "none"] /\ resp = "idle"
Issue == /\ resp = "idle"
         /\ \E r \in {x \in Requests : Meaningful(x)} :
               /\ req' = r
               /\ PrintT("@@ " \o ToJson([req |-> r, expected |-> Expected(r)]))
         /\ resp' = "pending"
Respond == /\ resp = "pending"
           /\ resp' = Expected(req)
           /\ req' = req
Next == Issue \/ Respond
Spec == Init /\ [][Next]_vars

TypeOK == resp \in Outcomes \cup {"idle", "pending"}
\* unsupported requests fail loudly: a label foreign to the coordinate system never answers
LoudForeign == (resp \in Outcomes /\ req.kind = "label_get" /\ LabelAxis(req.cls, req.label) = 0)
                  => resp = "AttributeError"
\* get and set agree
GetSetAgree == \A c \in Classes, k \in Comps :
                 Expected([kind |-> "comp_get", cls |-> c, comp |-> k])
                   = Expected([kind |-> "comp_set", cls |-> c, comp |-> k])
\* radial periodic flags are rejected in combination with any other periodic axes
RadialAlwaysRejected ==
  (resp \in Outcomes /\ req.kind = "periodic" /\ IsRadial(req.cls, 1)
     /\ (\E s \in req.sides : SideAxis(s) = 1)) => resp = "ValueError"
\* every class has exactly two accepted public constructor forms
TwoForms == \A c \in Classes :
   Cardinality({<<k, t>> \in (0..7) \X {"arrays", "numbers"} : CtorArityOk(c, k, t)}) = 2
=============================================================================
